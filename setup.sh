#!/bin/sh
# Build the fact extractor and warm the dependency check cache (offline; files on disk only).
set -e
cd "$(dirname "$0")"
export CARGO_NET_OFFLINE=true
mkdir -p build
(cd factgen && CARGO_TARGET_DIR=../build/factgen-target cargo build --offline 2>&1 | tail -3)
python3 - <<'PY'
import sys
sys.path.insert(0, '.')
from rules import run
p = run.gen_facts('/repo')
import os
print('facts ok', os.path.getsize(p))
os.remove(p)
PY
