"""C16 - a search requested before bootstrap finishes is carried out, not dropped (structural).

Decides: a search command reaches lookup construction only behind the sticky "initial bootstrap
done" flag, otherwise it is parked in a collection of the handler; the bootstrap-completion handler
takes the whole collection and passes every element to the same start routine; the flag has a single
writer, writes true, before the drain; the start routine is reachable only from these two places.
Equality of results with a post-bootstrap search is NOT decided."""
from . import lib, common
from .lib import (Sym, Lost, literal, term_int, strip_transparent, is_field_of_param, option_is_some, agg_variant,
                  field_chain, root_of, is_param, find_calls, fmt, must_pass, dominates)
from .lookup import coverage_gap

EXPLANATION = __doc__
ASSUMPTIONS = ['mem::take leaves an empty collection and returns the previous contents; Vec::push keeps the element',
               'a node whose bootstrap never completes keeps early searches parked (same contract as bootstrapped())']

H = 'handler::DhtHandler::'


def rule_queue_or_gate(ctx, res):
    b = ctx.co(H + 'handle_start_lookup')
    res.touch(b)
    s = Sym(b)
    s.run()
    res.paths += len(s.paths)
    gap = coverage_gap(b, s)
    res.check(not gap, 'COVER', b.path, 'path enumeration visited every reachable block', detail=str(gap[:8]))
    ok = bool(s.complete_paths())
    why = ''
    flag = None
    parked_in = set()
    for p in s.complete_paths():
        flags = [(literal(c)[1], literal(c)[3]) for c in p.conds if literal(c)[0] == 'bool' and is_param(root_of(literal(c)[1]), 'self') and len(field_chain(literal(c)[1])) == 1]
        starts = [e for e in p.effects if e[0] == 'call' and e[1] == H + 'start_lookup']
        parks = [e for e in p.effects if e[0] == 'call' and e[1] and e[1].split('::')[-1] in ('push', 'push_back', 'insert') and is_param(root_of(strip_transparent(e[2][0])), 'self')
                 and is_param(strip_transparent(e[2][-1]), 'lookup')]
        if len(starts) + len(parks) != 1:
            ok = False
            why = 'a path neither starts nor parks the search exactly once'
            continue
        if starts:
            if not (flags and flags[-1][1] is True and is_param(strip_transparent(starts[0][2][1]), 'lookup')):
                ok = False
                why = 'the search is started without the flag being true'
            else:
                flag = field_chain(flags[-1][0])[0]
        else:
            if not (flags and flags[-1][1] is False):
                ok = False
                why = 'the search is parked although the flag is true'
            parked_in.add(field_chain(strip_transparent(parks[0][2][0]))[0])
    res.check(ok and flag is not None and len(parked_in) == 1, 'MPT', b.path, 'every search command is either started (flag true) or parked in one handler collection (flag false), exactly once',
              site=b.span, detail=why)
    return flag, (list(parked_in)[0] if parked_in else None)


def rule_drain(ctx, res, flag, queue):
    b = ctx.co(H + 'handle_bootstrap_success')
    res.touch(b)
    s = Sym(b)
    s.run()
    res.paths += len(s.paths)
    takes = set()
    okl = False
    for p in s.paths:
        for e in p.effects:
            if e[0] == 'call' and e[1] and (e[1].endswith('mem::take') or e[1].endswith('::drain')) and is_field_of_param(e[2][0], 'self', queue):
                takes.add(e[3])
        if p.end == 'loop':
            st = [e for e in p.effects if e[0] == 'call' and e[1] == H + 'start_lookup']
            if st:
                a = strip_transparent(st[0][2][1])
                nx = find_calls(a, '::next')
                if nx and field_chain(a)[-1:] == ['0'] and any(is_field_of_param(x[2][0], 'self', queue) for x in find_calls(nx[0], 'take') + find_calls(nx[0], 'drain')):
                    okl = True
    res.check(len(takes) == 1 and must_pass(b, 0, takes), 'MPT', b.path, 'every path through the completion handler takes the whole parking collection', detail=str(takes))
    # every element taken out of the parking collection is started: no iteration path skips it
    for p in s.paths:
        if p.end == 'await-pending':
            continue
        got = False
        for c in p.conds:
            rel, a, b2, truth = literal(c)
            if rel == 'variant' and a[0] == 'call' and a[1].endswith('::next') and option_is_some(b2) is True and \
                    any(is_field_of_param(x[2][0], 'self', queue) for x in find_calls(a, 'take') + find_calls(a, 'drain')):
                got = True
        if got and not any(e[0] == 'call' and e[1] == H + 'start_lookup' for e in p.effects):
            okl = False
    res.check(okl, 'FLOW', b.path, 'each parked search is handed to the same start routine (no iteration of the drain skips its element)')
    # .. and the taken collection reaches that loop as it was taken: nothing removes, merges or reorders its entries in between
    touched = []
    for p in s.paths:
        for e in p.effects:
            if e[0] != 'call' or not e[1] or e[1].split('::')[-1] in ('next', 'into_iter', 'iter', 'take', 'drain', 'len', 'is_empty'):
                continue
            for a in e[2]:
                if not (isinstance(a, tuple) and a and a[0] == 'ref' and len(a) > 2 and a[2]):
                    continue
                tgt = a[1]
                while isinstance(tgt, tuple) and tgt and tgt[0] in ('ref', 'deref'):
                    tgt = tgt[1]
                # a `&mut` to the taken collection itself (not to something merely computed from one of its elements)
                if isinstance(tgt, tuple) and tgt and tgt[0] == 'call' and tgt[1] and (tgt[1].endswith('mem::take') or tgt[1].endswith('::drain')) \
                        and tgt[2] and is_field_of_param(tgt[2][0], 'self', queue):
                    touched.append(e[1].split('::')[-1])
    res.check(not touched, 'FLOW', b.path, 'the parked searches are started as taken: no entry is dropped, merged or filtered before the drain loop', detail=str(sorted(set(touched))), key='drain-untouched')
    # a started element of the drain loop is not silently skipped: the loop body has no other exit
    # sticky flag
    ws = ctx.field_writes(r'^handler::DhtHandler$', flag)
    wr = [(x[0].path, x[2]['rv']['op'].get('int') if x[2]['rv']['k'] == 'use' else None, x[1]) for x in ws]
    oks = len(wr) == 1 and wr[0][0] == b.path and wr[0][1] == 1
    if oks:
        oks = all(dominates(b, wr[0][2], t) for t in takes)
    res.check(oks, 'WHO', H[:-2] + '.' + str(flag), 'the flag has exactly one writer, writes true, in the completion handler, before the drain (monotone)', detail=str(wr))
    mb = ctx.mut_borrows_of_field(r'^handler::DhtHandler$', flag)
    res.check(not mb, 'WHO', H[:-2] + '.' + str(flag), 'no &mut to the flag escapes', key='flag-mutborrow')
    # constructor: flag false
    nb = ctx.body(H + 'new')
    ns = Sym(nb)
    ns.run()
    okn = all(term_int(p.ret[2].get(flag)) == 0 for p in ns.complete_paths()) and ns.complete_paths()
    res.check(okn, 'TABLE', nb.path, 'the flag starts false')
    # queue operations: push (start handler), take (completion handler) only
    ops = {}
    for body in ctx.f.body_list:
        if body.kind == 'stolen' or not body.path.startswith('handler::'):
            continue
        for i, blk in enumerate(body.blocks):
            if blk['cleanup']:
                continue
            for st in blk['stmts']:
                if st['k'] == 'assign' and st['rv']['k'] == 'ref' and st['rv']['mut']:
                    pl = st['rv']['place']
                    if any(isinstance(e, dict) and e.get('n') == queue and e.get('bt') == 'handler::DhtHandler' for e in pl['p']):
                        ops.setdefault(body.path, 0)
                        ops[body.path] += 1
    exp = {H + 'handle_start_lookup::{closure#0}', H + 'handle_bootstrap_success::{closure#0}'}
    res.check(set(ops) <= exp, 'WHO', H[:-2] + '.' + str(queue), 'the parking collection is touched only by the start handler (push) and the completion handler (take)', detail=str(ops))
    ws = ctx.field_writes(r'^handler::DhtHandler$', queue)
    res.check(not ws, 'WHO', H[:-2] + '.' + str(queue), 'never replaced wholesale', detail=str([x[0].path for x in ws]), key='queue-assign')


def rule_entries(ctx, res):
    sites = ctx.calls_to(H + 'start_lookup')
    exp = {H + 'handle_start_lookup::{closure#0}', H + 'handle_bootstrap_success::{closure#0}'}
    res.check({x.body.path for x in sites} == exp and len(sites) == 2, 'WHO', H + 'start_lookup', 'the start routine is entered only from the gated start handler and from the completion drain', detail=str(sites))
    news = ctx.calls_to('action::lookup::TableLookup::new')
    res.check({x.body.path for x in news} == {H + 'start_lookup::{closure#0}'}, 'WHO', 'action::lookup::TableLookup::new', 'searches are constructed only by the start routine', detail=str(news))
    # command dispatch: StartLookup(lookup) -> handle_start_lookup(lookup)
    b = ctx.co(H + 'handle_command')
    res.touch(b)
    s = Sym(b)
    s.run()
    tv = common.enum_variants(ctx, 'action::OneshotTask')
    ok = False
    for p in s.complete_paths():
        var = None
        for c in p.conds:
            rel, a, b2, truth = literal(c)
            if rel == 'variant' and is_param(a, 'task'):
                var = b2
        if var == tv['StartLookup']:
            st = [e for e in p.effects if e[0] == 'call' and e[1] == H + 'handle_start_lookup']
            ok = len(st) == 1 and field_chain(strip_transparent(st[0][2][1])) == ['0'] and is_param(root_of(strip_transparent(st[0][2][1])), 'task')
    res.check(ok, 'TABLE', b.path, 'a StartLookup command is handed to the start handler with its payload')
    # completion handler entry: run_once calls it when the bootstrap state changed and is Bootstrapped (see C15 WAITERS)
    sites = ctx.calls_to(H + 'handle_bootstrap_success')
    res.check(len(sites) == 1 and sites[0].body.path.startswith(H + 'run_once'), 'WHO', H + 'handle_bootstrap_success', 'the completion handler is called from the event loop', detail=str(sites))


def run(ctx, res):
    flag, queue = rule_queue_or_gate(ctx, res)
    if flag is None or queue is None:
        raise Lost('start handler does not gate/park searches')
    rule_drain(ctx, res, flag, queue)
    rule_entries(ctx, res)
