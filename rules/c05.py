"""C05 - each well-formed query gets exactly one correct reply; nothing else is answered (structural, all paths).

Decides on the MIR of the dispatcher (handle_incoming), Socket::recv and the crate-wide construction
sites: one reply per query on every non-error path, addressed to the source, echoing the transaction
id, carrying the own id; per-kind field discipline; the 203/202 mapping; replies are constructed
nowhere else; the read-only gate (by path-sensitive predicate tracking); garbage and error paths send
nothing. Byte-level well-formedness is C13."""
from . import lib, common
from .lib import (Sym, Table, BOOL, Lost, literal, term_int, strip_transparent, is_field_of_param, option_is_some,
                  agg_variant, field_chain, root_of, is_param, find_calls, fmt, term_walk)

EXPLANATION = __doc__
ASSUMPTIONS = ['Vec::new() is empty; <[u8]>::to_vec / clone preserve contents', 'rustc guarantees match exhaustiveness',
               'a Socket::send failure (io::Error) may skip the reply: the property quantifies over well-formed queries, not over OS send failures']

SEND = 'socket::Socket::send'


def ret_kind(p):
    r = p.ret
    v = agg_variant(r)
    if v in ('Ok', 'Err') and r[1].startswith('std::result::Result'):
        return v
    if isinstance(r, tuple) and r[0] == 'call' and r[1].endswith('from_residual'):
        return 'Err?'
    return 'other:' + fmt(r)[:80]


def residual_source(p):
    """for a `?` error return: the term whose Err is propagated"""
    r = p.ret
    if not (r[0] == 'call' and r[1].endswith('from_residual')):
        return None
    t = r[2][0]
    # (branch(X) as Break).0
    for c in find_calls(t, '::branch'):
        return strip_transparent(c[2][0])
    return None


def always_ok(ctx, fn_path):
    """crate-local fn whose every returning path returns Result::Ok (so `?` on it never fires)"""
    b = ctx.f.body(fn_path)
    if b is None:
        return False
    s = Sym(b)
    try:
        s.run()
    except Lost:
        return False
    cps = s.complete_paths()
    return bool(cps) and all(agg_variant(p.ret) == 'Ok' for p in cps)


def paths_from_arm(d, arm):
    """paths of the dispatcher from the entry of `arm` on.  The whole coroutine is enumerated from its start (so that values
    bound before the match, e.g. `let Message { transaction_id, body } = message`, are known) and every path through the
    arm is cut to its part from the arm's entry block; what happens before the match is common to all arms."""
    env = lib.coroutine_param_env(d.body)
    s = Sym(d.body)
    s.run(start=0, env=env)
    entry = d.arms[arm]
    kept, seen = [], set()
    for p in s.paths:
        if entry not in p.blocks:
            continue
        i = p.blocks.index(entry)
        tail = tuple(p.blocks[i:])
        if tail in seen:
            continue
        seen.add(tail)
        later = set(tail)
        p.effects = [e for e in p.effects if (e[3] if len(e) > 3 else None) in later]
        p.conds = [c for c in p.conds if c[2] in later]
        p.blocks = list(tail)
        kept.append(p)
    s.paths = kept
    return s


def arm_paths(ctx, d, arm, res):
    s = paths_from_arm(d, arm)
    res.paths += len(s.paths)
    # a loop inside an arm is fine as long as it does not talk to the socket (a loop that builds the reply's lists)
    bad = [p for p in s.paths if p.end not in ('return', 'await-pending') and not (p.end == 'loop' and not sends_of(p))]
    for p in s.paths:
        p.sym = s      # the enumeration a path belongs to (for loop-built values)
    return s.complete_paths(), bad


def sends_of(p):
    return [e for e in p.effects if e[0] == 'call' and e[1] == SEND]


def message_of_send(e):
    """the Message aggregate passed (by reference) to Socket::send, or None"""
    m = e[2][1]
    while isinstance(m, tuple) and m[0] in ('ref', 'deref'):
        m = m[1]
    if isinstance(m, tuple) and m[0] == 'agg' and m[1] == 'message::Message::Message':
        return m
    return None


def body_of_message(m):
    b = m[2].get('body')
    if isinstance(b, tuple) and b[0] == 'agg' and b[1].startswith('message::MessageBody::'):
        return b[1].split('::')[-1], b[2].get('0')
    return None, None


def is_empty_vec(t):
    t = strip_transparent(t) if not (isinstance(t, tuple) and t[0] == 'call') else t
    return isinstance(t, tuple) and t[0] == 'call' and t[1].endswith('Vec::<T>::new') or (isinstance(t, tuple) and t[0] == 'call' and t[1] in ('std::vec::Vec::<T>::new', 'alloc::vec::Vec::<T>::new'))


def pipeline(t):
    """iterator pipeline of a collect() term: [('src', term), ('filter', closure), ('take', n), ('map', closure), ('collect',)]"""
    out = []
    while isinstance(t, tuple) and t[0] == 'call':
        name = t[1].split('::')[-1]
        if name in ('collect', 'copied', 'cloned', 'into_iter', 'iter', 'flatten'):
            out.append((name,))
            t = t[2][0]
        elif name in ('filter', 'map', 'take', 'skip', 'take_while', 'filter_map', 'chain'):
            out.append((name, t[2][1]))
            t = t[2][0]
        else:
            break
    out.append(('src', t))
    out.reverse()
    return out


def rule_arms(ctx, res, d):
    res.touch(d.body)
    res.check(d.distinct_arms(), 'ARMS', common.HANDLE_INCOMING, 'the dispatcher has a distinct arm for each of the 4 query kinds, for responses and for errors', site=d.body.span)


def rule_one_reply(ctx, res, d, exact_values=False):
    """ONE-REPLY + ADDRESSING + FIELDS per request arm"""
    for arm in common.REQUEST_VARIANTS:
        anchor = 'handle_incoming/' + arm
        paths, odd = arm_paths(ctx, d, arm, res)
        res.check(not odd and paths, 'COUNT', anchor, 'arm is loop-free apart from await polling (paths are enumerable)', detail='%s' % [(p.end) for p in odd][:5], key='enumerable:' + arm)
        n_ok = 0
        for p in paths:
            k = ret_kind(p)
            s = sends_of(p)
            res.sites += len(s)
            if k == 'Ok':
                n_ok += 1
                res.check(len(s) == 1, 'COUNT', anchor, 'exactly one Socket::send on a path returning Ok(())', site=(d.body.term(s[0][3])['sp'] if s else None),
                          detail='%d sends on a successful path through blocks %s' % (len(s), p.blocks[:6]), key='one-reply-ok:' + arm)
            elif k == 'Err?':
                src = residual_source(p)
                if len(s) == 1 and src is not None and src[0] == 'await' and find_calls(src, SEND.split('::')[-1]):
                    res.ok('COUNT', anchor, 'error exit is the `?` on the reply send itself')
                elif len(s) == 0 and src is not None and src[0] == 'call' and always_ok(ctx, src[1]):
                    res.ok('COUNT', anchor, 'error exit before the reply is `?` on %s, which always returns Ok (infeasible)' % lib.short(src[1]))
                else:
                    res.bad('COUNT', anchor, 'a path leaves the arm with an error and %d replies sent; the reply may be skipped' % len(s),
                            detail='propagated error comes from %s' % (fmt(src) if src else '?'), key='err-exit:' + arm)
            else:
                res.bad('COUNT', anchor, 'unrecognised exit of the arm: %s' % k, key='exit-kind:' + arm)
            # addressing and content of every send on this path
            for e in s:
                site = d.body.term(e[3])['sp']
                dest = strip_transparent(e[2][2])
                res.check(is_param(dest, 'addr') or (is_param(root_of(dest)) and root_of(dest)[1] == 3 and not field_chain(dest)),
                          'FLOW', anchor, 'reply destination is the datagram source address parameter', site=site, detail=fmt(dest), key='dest:' + arm)
                m = message_of_send(e)
                if m is None:
                    res.bad('FLOW', anchor, 'reply message is not a Message built in the arm', site=site, detail=fmt(e[2][1])[:200], key='msg-agg:' + arm)
                    continue
                tid = strip_transparent(m[2].get('transaction_id'))
                res.check(is_param(root_of(tid)) and root_of(tid)[1] == 2 and field_chain(tid) == ['transaction_id'],
                          'FLOW', anchor, 'transaction id is the received message\'s transaction_id, moved unchanged', site=site, detail=fmt(tid), key='tid:' + arm)
                kind, inner = body_of_message(m)
                res.check(kind in ('Response', 'Error'), 'TABLE', anchor, 'reply body is a Response or an Error', site=site, detail=str(kind), key='kind:' + arm)
                if kind == 'Response' and isinstance(inner, tuple) and inner[0] == 'agg':
                    check_response_fields(ctx, res, arm, anchor, inner, site, p, exact_values, sym=getattr(p, 'sym', None))
        res.check(n_ok >= 1, 'COUNT', anchor, 'the arm has a successful path', key='has-ok-path:' + arm)


def check_response_fields(ctx, res, arm, anchor, r, site, p, exact_values=False, sym=None):
    f = r[2]
    rid = strip_transparent(f.get('id'))
    res.check(is_param(root_of(rid)) and root_of(rid)[1] == 1 and field_chain(rid) == ['this_node_id'], 'FLOW', anchor,
              'Response.id is the node\'s own id', site=site, detail=fmt(rid), key='own-id:' + arm)
    tok = f.get('token')
    vals = f.get('values')
    n4, n6 = f.get('nodes_v4'), f.get('nodes_v6')
    if arm in ('Ping', 'AnnouncePeer'):
        ok = agg_variant(tok) == 'None' and is_empty_vec(vals) and is_empty_vec(n4) and is_empty_vec(n6)
        res.check(ok, 'TABLE', anchor, 'ping reply / announce ack carry no token, no values, no nodes', site=site, detail=fmt(r)[:300], key='fields:' + arm)
    elif arm == 'FindNode':
        ok = agg_variant(tok) == 'None' and is_empty_vec(vals)
        res.check(ok, 'TABLE', anchor, 'find_node reply carries no token and no values', site=site, detail=fmt(r)[:300], key='fields:' + arm)
        check_nodes_from_closest(ctx, res, arm, anchor, n4, n6, site, 'target')
    elif arm == 'GetPeers':
        # token = Some(checkout(addr.ip()).as_ref().to_vec())
        ok = agg_variant(tok) == 'Some'
        src = strip_transparent(tok[2].get('0')) if ok else None
        ok = ok and src[0] == 'call' and src[1] == 'token::TokenStore::checkout'
        res.check(ok, 'FLOW', anchor, 'get_peers reply carries Some(token) taken from TokenStore::checkout', site=site, detail=fmt(tok)[:200], key='token:' + arm)
        # values = find_items(&g.info_hash).filter(family).collect()   -- or the same thing written as a loop
        if lib.loop_root(vals) is not None and sym is not None:
            check_values_loop(ctx, res, arm, anchor, lib.loop_root(vals), sym, site, exact_values)
            check_nodes_from_closest(ctx, res, arm, anchor, n4, n6, site, 'info_hash')
            return
        pl = pipeline(strip_transparent(vals) if vals[0] != 'call' else vals)
        names = [x[0] for x in pl]
        src = pl[0][1]
        # C05 needs: only stored peers, all through the family filter (adaptors that drop elements are harmless);
        # C07 (exactness) needs the list to be nothing but the filtered store contents
        shape_ok = (names == ['src', 'filter', 'collect']) if exact_values else (names[:2] == ['src', 'filter'] and names[-1] == 'collect' and all(n in ('filter', 'take', 'skip') for n in names[1:-1]))
        ok = (shape_ok and src[0] == 'call' and src[1] == 'storage::AnnounceStorage::find_items'
              and field_chain(strip_transparent(src[2][1]))[-1:] == ['info_hash'] and is_param(root_of(strip_transparent(src[2][1])), 'message'))
        res.check(ok, 'FLOW', anchor, 'values = find_items(query info_hash) through the family filter' + (' and nothing else (exactness)' if exact_values else ''), site=site, detail=str(names) + ' ' + fmt(src)[:160], key='values:' + arm)
        if ok:
            check_values_filter(ctx, res, anchor, pl[1][1], site)
        check_nodes_from_closest(ctx, res, arm, anchor, n4, n6, site, 'info_hash')


def check_values_loop(ctx, res, arm, anchor, lv, sym, site, exact_values):
    """`for c in find_items(hash) { if same_family(c, requester) { values.push(c) } }` - the loop form of the pipeline"""
    try:
        st = lib.loop_stream(sym, lv)
    except Lost as e:
        res.bad('FLOW', anchor, 'values = find_items(query info_hash) through the family filter', site=site, detail='loop form: %s' % e, key='values:' + arm)
        return
    src = st['src']
    ok = (src[0] == 'call' and src[1] == 'storage::AnnounceStorage::find_items'
          and field_chain(strip_transparent(src[2][1]))[-1:] == ['info_hash'] and is_param(root_of(strip_transparent(src[2][1])), 'message'))
    if exact_values and st['cap'] is not None:
        ok = False
    res.check(ok, 'FLOW', anchor, 'values = find_items(query info_hash) through the family filter' + (' and nothing else (exactness)' if exact_values else ''), site=site,
              detail='loop over ' + fmt(src)[:160], key='values:' + arm)
    elem = st['elem']
    is_elem = st['is_elem']

    def classify(lit, c):
        rel, a, b2, truth = lit
        if rel == 'bool' and isinstance(a, tuple) and a[0] == 'call' and a[1] in ('std::net::SocketAddr::is_ipv4', 'std::net::SocketAddr::is_ipv6') and truth is not None:
            x = strip_transparent(a[2][0])
            which = 'val' if is_elem(x) else 'req' if (is_param(x) and x[1] == 3) else None
            if which:
                v4 = a[1].endswith('is_ipv4') == bool(truth)
                return (which, {'V4'} if v4 else {'V6'})
        if rel == 'variant':
            x = strip_transparent(a)
            which = 'val' if is_elem(x) else 'req' if (is_param(x) and x[1] == 3) else None
            if which:
                fam = {'V4': 0, 'V6': 1}
                if isinstance(b2, tuple) and b2[0] == 'not':
                    return (which, {k for k in fam if fam[k] not in b2[1]})
                return (which, {k for k in fam if fam[k] == b2})
        raise Lost('values loop: unrecognised condition %s %s' % (rel, fmt(a)))

    class _Row:
        def __init__(self, conds):
            self.conds = conds
    try:
        rows = []
        for lits, pushed, p in st['rows']:
            t = lib.Table.build([_Row(lits)], classify, lambda _p, pushed=pushed: ('skip' if pushed is None else 'push' if is_elem(pushed) else 'push-other'))
            rows.extend(t.rows)
        tab = lib.Table(rows)
        bad, n = tab.compare({'req': ['V4', 'V6'], 'val': ['V4', 'V6']}, lambda v: 'push' if v['req'] == v['val'] else 'skip')
        res.check(not bad, 'TABLE', anchor, 'values filter keeps exactly the peers of the requester\'s address family', site=site,
                  detail='; '.join('%s -> got %s want %s' % (v, g, e) for v, g, e in bad[:4]), key='values-filter-loop')
    except Lost as e:
        res.bad('TABLE', anchor, 'values filter keeps exactly the peers of the requester\'s address family', site=site, detail=str(e), key='values-filter-loop')


def check_nodes_from_closest(ctx, res, arm, anchor, n4, n6, site, key_field):
    """both node lists are the two components of one find_closest_nodes(query target, query want) result"""
    ok = True
    srcs = []
    for idx, t in (('0', n4), ('1', n6)):
        t = strip_transparent(t)
        # ((branch(find_closest_nodes(..)) as Continue).0).idx
        fc = field_chain(t)
        calls = find_calls(t, 'DhtHandler::find_closest_nodes')
        ok = ok and len(calls) >= 1 and fc[-1:] == [idx]
        srcs.extend(calls)
    if ok:
        c = srcs[0]
        tgt = strip_transparent(c[2][1])
        want = strip_transparent(c[2][2])
        ok = (is_param(root_of(tgt), 'message') and field_chain(tgt)[-1:] == [key_field]
              and is_param(root_of(want), 'message') and field_chain(want)[-1:] == ['want'])
    res.check(ok, 'FLOW', anchor, 'nodes/nodes6 = the (v4, v6) pair of find_closest_nodes(query %s, query want)' % key_field, site=site, key='nodes-src:' + arm)


def check_values_filter(ctx, res, anchor, closure_term, site):
    if not (isinstance(closure_term, tuple) and closure_term[0] == 'closure'):
        res.bad('TABLE', anchor, 'values filter is not a closure', site=site, key='values-filter')
        return
    b = ctx.body(closure_term[1])
    res.touch(b)
    s = Sym(b)
    s.run()
    fam = common.enum_variants(ctx, 'std::net::SocketAddr') if 'std::net::SocketAddr' in ctx.f.adts else {'V4': 0, 'V6': 1}
    inv = {v: k for k, v in fam.items()}

    def classify(lit, c):
        rel, a, b2, truth = lit
        if rel == 'variant':
            r = root_of(a)
            which = None
            if is_param(r) and r[1] == 1:
                which = 'req'      # captured requester address (closure environment)
            elif is_param(r) and r[1] == 2:
                which = 'val'      # the stored value
            if which:
                if isinstance(b2, tuple) and b2[0] == 'not':
                    return (which, {k for k in fam if fam[k] not in b2[1]})
                return (which, {inv[b2]})
        if rel == 'bool' and isinstance(a, tuple) and a[0] == 'call' and a[1] in ('std::net::SocketAddr::is_ipv4', 'std::net::SocketAddr::is_ipv6') and truth is not None:
            r = root_of(strip_transparent(a[2][0]))
            which = 'req' if (is_param(r) and r[1] == 1) else 'val' if (is_param(r) and r[1] == 2) else None
            if which and not field_chain(strip_transparent(a[2][0])) or which == 'req':
                v4 = a[1].endswith('is_ipv4') == bool(truth)
                return (which, {'V4'} if v4 else {'V6'})
        raise Lost('values filter: unrecognised condition %s %s' % (rel, fmt(a)))

    tab = lib.bool_table(s.complete_paths(), classify)
    bad, n = tab.compare({'req': ['V4', 'V6'], 'val': ['V4', 'V6']}, lambda v: v['req'] == v['val'])
    res.check(not bad, 'TABLE', closure_term[1], 'values filter keeps exactly the peers of the requester\'s address family', site=b.span,
              detail='; '.join('%s -> got %s want %s' % (v, g, e) for v, g, e in bad[:4]))
    # the captured address is the datagram source
    caps = closure_term[2]
    okc = len(caps) == 1 and is_param(root_of(strip_transparent(caps[0]))) and root_of(strip_transparent(caps[0]))[1] == 3
    res.check(okc, 'FLOW', anchor, 'the family filter captures the datagram source address', site=site, detail=fmt(caps[0]) if caps else '', key='values-filter-capture')


def rule_families(ctx, res):
    """find_closest_nodes: want x own family table; each list filtered by the matching family; take(8)"""
    fn = 'handler::DhtHandler::find_closest_nodes'
    b = ctx.body(fn)
    res.touch(b)
    s = Sym(b)
    s.run()
    res.paths += len(s.paths)
    want = common.enum_variants(ctx, 'message::Want')
    ipv = common.enum_variants(ctx, 'action::IpVersion')
    winv = {v: k for k, v in want.items()}
    iinv = {v: k for k, v in ipv.items()}
    W = ['None', 'V4', 'V6', 'Both']

    def classify(lit, c):
        rel, a, b2, truth = lit
        if rel == 'variant':
            if is_param(a, 'want') or (is_param(a) and a[1] == 3):
                s_ = option_is_some(b2)
                return ('W', {'V4', 'V6', 'Both'} if s_ else {'None'})
            if is_param(root_of(a)) and root_of(a)[1] == 3 and field_chain(a) == ['0']:
                if isinstance(b2, tuple) and b2[0] == 'not':
                    return ('W', {k for k in want if want[k] not in b2[1]})
                return ('W', {winv[b2]})
            if a[0] == 'call' and a[1].endswith('ip_version'):
                if isinstance(b2, tuple) and b2[0] == 'not':
                    return ('IP', {k for k in ipv if ipv[k] not in b2[1]})
                return ('IP', {iinv[b2]})
        def defaulted(t):
            """`want.unwrap_or(D)` with D a Want variant known on this path (chosen from the own family): returns D"""
            t = strip_transparent(t)
            if isinstance(t, tuple) and t[0] == 'call' and t[1].split('::')[-1] == 'unwrap_or' and len(t[2]) == 2 and is_param(strip_transparent(t[2][0])) \
                    and strip_transparent(t[2][0])[1] == 3 and agg_variant(strip_transparent(t[2][1])) in want:
                return agg_variant(strip_transparent(t[2][1]))
            return None
        if rel == 'bool' and term_int(a) is not None:
            return None
        if rel == 'variant' and defaulted(a) is not None:
            d_ = defaulted(a)
            hit = {k for k in want if want[k] not in b2[1]} if isinstance(b2, tuple) and b2[0] == 'not' else {winv[b2]}
            return ('W', hit | ({'None'} if d_ in hit else set()))
        if rel == 'eq' and truth is not None:
            for x, y in ((a, b2), (b2, a)):
                if isinstance(x, tuple) and defaulted(x) is not None and agg_variant(y) in want:
                    hit = {agg_variant(y)} | ({'None'} if defaulted(x) == agg_variant(y) else set())
                    return ('W', hit if truth else set(W) - hit)
            # `want == Want::V4` / `want != Want::V6` (derived PartialEq) instead of a match
            for x, y in ((a, b2), (b2, a)):
                if isinstance(x, tuple) and is_param(root_of(x)) and root_of(x)[1] == 3 and field_chain(x) in (['0'], []) and agg_variant(y) in want:
                    hit = {agg_variant(y)}
                    return ('W', hit if truth else {k for k in want if k not in hit})
        if c[2] is not None and c[2] in loop_blocks:
            return None        # conditions inside a list-building loop are judged by the loop rule below
        raise Lost('find_closest_nodes: unrecognised condition %s %s' % (rel, fmt(a)))

    s.loop_info()
    loop_blocks = set()
    for comp in getattr(s, '_loop_bodies', []):
        loop_blocks |= set(comp)
    filters = {}
    loop_lists = {}

    def family_loop(i, lv):
        """list i written as `for n in closest_nodes(target) { if family(n) { v.push(*n.handle()); if v.len() == 8 { break } } }`"""
        key = (i, lv)
        if key in loop_lists:
            return loop_lists[key]
        good = False
        try:
            st = lib.loop_stream(s, lv)
            src = strip_transparent(st['src'])
            is_elem = st['is_elem']
            cap = st['cap']
            want_fam = 'V4' if i == '0' else 'V6'

            def strip_refs(t):
                t = strip_transparent(t)
                while isinstance(t, tuple) and t and t[0] in ('ref', 'deref'):
                    t = strip_transparent(t[1])
                return t

            def classify_l(lit, c):
                rel, a, b2, truth = lit
                def fam_call(t):
                    t = strip_transparent(t)
                    if isinstance(t, tuple) and t[0] == 'call' and t[1] in ('std::net::SocketAddr::is_ipv4', 'std::net::SocketAddr::is_ipv6'):
                        ad = find_calls(t, 'Node::addr')
                        return bool(ad) and is_elem(strip_refs(ad[0][2][0]))
                    return False
                if rel == 'bool' and fam_call(a) and truth is not None:
                    v4 = strip_transparent(a)[1].endswith('is_ipv4') == bool(truth)
                    return ('fam', {'V4'} if v4 else {'V6'})
                if rel == 'eq' and truth is not None:
                    for x, y in ((a, b2), (b2, a)):
                        k = term_int(y) if isinstance(y, tuple) else None
                        if fam_call(x) and k in (0, 1):
                            v4 = strip_transparent(x)[1].endswith('is_ipv4') == (bool(k) == bool(truth))
                            return ('fam', {'V4'} if v4 else {'V6'})
                raise Lost('family loop: unrecognised condition %s %s' % (rel, fmt(a)))

            class _Row:
                def __init__(self, conds):
                    self.conds = conds
            rows = []
            for lits, pushed, pp in st['rows']:
                hp = pushed is not None and bool(find_calls(pushed, 'Node::handle')) and is_elem(strip_refs(find_calls(pushed, 'Node::handle')[0][2][0]))
                rows.extend(lib.Table.build([_Row(lits)], classify_l, lambda _p, hp=hp, pu=pushed: (True if hp else False if pu is None else 'push-other')).rows)
            badl, _n = lib.Table(rows).compare({'fam': ['V4', 'V6']}, lambda v: v['fam'] == want_fam)
            good = (not badl and src[0] == 'call' and src[1] == 'table::RoutingTable::closest_nodes' and is_param(strip_transparent(src[2][1]), 'target')
                    and cap is not None and term_int(cap) == 8)
        except Lost:
            good = False
        loop_lists[key] = good
        return good

    def outcome(p):
        if agg_variant(p.ret) != 'Ok':
            return 'not-ok'
        t = p.ret[2].get('0')
        out = []
        for i in ('0', '1'):
            e = t[2].get(i)
            if is_empty_vec(e):
                out.append(False)
            elif lib.loop_root(e) is not None:
                out.append(True if family_loop(i, lib.loop_root(e)) else 'bad-loop')
            else:
                pl = pipeline(e)
                names = [x[0] for x in pl]
                src = pl[0][1]
                # `.take(8).map(f)` and `.map(f).take(8)` yield the same list (the map closure is checked to be the plain handle copy below)
                stage = {x[0]: x[1] for x in pl if len(x) > 1}
                good = (names in (['src', 'filter', 'take', 'map', 'collect'], ['src', 'filter', 'map', 'take', 'collect']) and src[0] == 'call' and src[1] == 'table::RoutingTable::closest_nodes'
                        and is_param(strip_transparent(src[2][1]), 'target') and term_int(stage['take']) == 8)
                if good:
                    filters.setdefault(i, set()).add((stage['filter'], stage['map']))
                out.append(True if good else 'bad-pipeline:%s' % names)
        return tuple(out)

    tab = Table.build(s.complete_paths(), classify, outcome)

    def expected(v):
        w = v['W']
        if w == 'None':
            w = v['IP']
        return (w in ('V4', 'Both'), w in ('V6', 'Both'))

    bad, n = tab.compare({'W': W, 'IP': ['V4', 'V6']}, expected)
    res.check(not bad, 'TABLE', fn, 'family table: want absent -> own family, n4 -> v4, n6 -> v6, both -> both; each list = closest_nodes(target).filter(family).take(8)',
              site=b.span, detail='; '.join('%s -> got %s want %s' % (v, g, e) for v, g, e in bad[:4]))
    res.check(always_ok(ctx, fn), 'TABLE', fn, 'find_closest_nodes never returns Err (so `?` on it cannot skip a reply)', site=b.span)
    # filter closures: list 0 keeps is_ipv4, list 1 keeps is_ipv6; map closures yield the node handle
    for i, fam in (('0', 'is_ipv4'), ('1', 'is_ipv6')):
        fs = filters.get(i, set())
        if not fs and any(k[0] == i and v for k, v in loop_lists.items()):
            res.ok('TABLE', fn, 'list %s (%s) is built by a loop that keeps node.addr().%s() and stores the node handle, at most 8' % (i, 'nodes' if i == '0' else 'nodes6', fam), site=b.span, key='family-filter:' + i)
            continue
        ok = len(fs) == 1
        if ok:
            fcl, mcl = list(fs)[0]
            want_fam = 'V4' if fam == 'is_ipv4' else 'V6'
            try:
                fb, ss = lib.closure_sym(ctx, fcl, res)

                def classify_fam(lit, c):
                    rel, a, b2, truth = lit
                    def fam_call(t):
                        t = strip_transparent(t)
                        return isinstance(t, tuple) and t[0] == 'call' and t[1] in ('std::net::SocketAddr::is_ipv4', 'std::net::SocketAddr::is_ipv6') and bool(find_calls(t, 'Node::addr'))
                    if rel == 'bool' and fam_call(a) and truth is not None:
                        v4 = strip_transparent(a)[1].endswith('is_ipv4') == bool(truth)
                        return ('fam', {'V4'} if v4 else {'V6'})
                    if rel == 'eq' and truth is not None:
                        for x, y in ((a, b2), (b2, a)):
                            k = term_int(y) if isinstance(y, tuple) else None
                            if fam_call(x) and k in (0, 1):
                                v4 = strip_transparent(x)[1].endswith('is_ipv4') == (bool(k) == bool(truth))
                                return ('fam', {'V4'} if v4 else {'V6'})
                    if rel == 'variant' and isinstance(a, tuple) and a[0] == 'call' and a[1].endswith('Node::addr'):
                        famv = {'V4': 0, 'V6': 1}
                        if isinstance(b2, tuple) and b2[0] == 'not':
                            return ('fam', {k for k in famv if famv[k] not in b2[1]})
                        return ('fam', {k for k in famv if famv[k] == b2})
                    raise Lost('family filter: unrecognised condition %s %s' % (rel, fmt(a)))
                tabf = lib.bool_table(ss.complete_paths(), classify_fam)
                badf, nf = tabf.compare({'fam': ['V4', 'V6']}, lambda v: v['fam'] == want_fam)
                ok = not badf
            except Lost:
                ok = False
            mb, ms = lib.closure_sym(ctx, mcl, res)
            mp = ms.complete_paths()
            ok = ok and len(mp) == 1 and bool(find_calls(mp[0].ret, 'Node::handle'))
        res.check(ok, 'TABLE', fn, 'list %s (%s) is filtered by node.addr().%s() and maps to the node handle' % (i, 'nodes' if i == '0' else 'nodes6', fam), site=b.span, key='family-filter:' + i)


def rule_reply_only_here(ctx, res, d):
    """MessageBody::Response / ::Error values are constructed only in the request arms and in the decoder"""
    for variant in ('Response', 'Error'):
        sites = ctx.aggregates(adt='message::MessageBody', variant=variant)
        res.sites += len(sites)
        bad = []
        n_in_arms = 0
        for b, blk, st in sites:
            if b.path == d.body.path and d.arm_of_block(blk) in common.REQUEST_VARIANTS:
                n_in_arms += 1
                continue
            if b.path.startswith('<message::Message as std::convert::TryFrom<message::RawMessage'):
                continue  # decoding a received datagram
            if ctx.is_derived(b.path) and '::clone' in b.path:
                continue  # #[derive(Clone)]: copies an existing value
            bad.append('%s @%s' % (b.path, st['sp']))
        floor = 1   # non-vacuity only: merging the duplicated reply constructions is a legitimate refactoring
        res.check(not bad and n_in_arms >= floor, 'WHO', 'message::MessageBody::' + variant,
                  '%s bodies are constructed only inside the query arms of the dispatcher (>= %d sites) and by the decoder' % (variant, floor),
                  detail='elsewhere: %s; in arms: %d' % (bad, n_in_arms), key='who-constructs:' + variant)
    # every Socket::send / send_request outside the dispatcher sends a Message built from MessageBody::Request
    callers = ctx.calls_to(SEND) + ctx.calls_to('socket::Socket::send_request')
    res.sites += len(callers)
    res.check(len(callers) >= 1, 'WHO', SEND, 'call sites of Socket::send/send_request found (non-vacuity)', detail='%d' % len(callers))
    # raw socket writes happen only in Socket::send
    raw = ctx.calls_matching(r'SocketTrait::send_to$')
    raw_bodies = {s.body.path for s in raw if not s.body.path.startswith('<tokio::net::UdpSocket as SocketTrait>')}
    res.check(raw_bodies <= {'socket::Socket::send::{closure#0}'} and raw, 'WHO', 'SocketTrait::send_to', 'datagrams are written to the socket only by Socket::send',
              detail='%s' % sorted(raw_bodies))


def rule_error_codes(ctx, res, d):
    """announce_peer: invalid token -> 203, store full -> 202, stored -> ack; storing only after a valid check"""
    arm = 'AnnouncePeer'
    anchor = 'handle_incoming/' + arm
    paths, _ = arm_paths(ctx, d, arm, res)
    codes = {'PROTOCOL_ERROR': ctx.f.const_value('message::error_code::PROTOCOL_ERROR'), 'SERVER_ERROR': ctx.f.const_value('message::error_code::SERVER_ERROR')}
    res.check(codes['PROTOCOL_ERROR'] == 203 and codes['SERVER_ERROR'] == 202, 'CONST', 'message::error_code', 'PROTOCOL_ERROR = 203, SERVER_ERROR = 202', detail=str(codes))

    def classify(lit, c):
        rel, a, b2, truth = lit
        if rel == 'bool' and a[0] == 'call' and a[1] == 'token::TokenStore::checkin':
            return ('valid', truth)
        if rel == 'bool' and a[0] == 'call' and a[1] == 'storage::AnnounceStorage::add_item':
            return ('stored', truth)
        if rel == 'variant' and a[0] == 'call' and a[1] == 'token::Token::new':
            # Token::new(..) is Ok (0) / Err (1): an Err means the token cannot be valid
            if b2 == 1 or (isinstance(b2, tuple) and b2[0] == 'not' and tuple(b2[1]) == (0,)):
                return ('valid', False)
            return None
        return None

    def outcome(p):
        s = sends_of(p)
        if len(s) != 1:
            return 'sends:%d' % len(s)
        m = message_of_send(s[0])
        if m is None:
            return 'no-message'
        kind, inner = body_of_message(m)
        stored = bool(lib.calls_of(p, 'AnnounceStorage::add_item'))
        if kind == 'Error' and isinstance(inner, tuple) and inner[0] == 'agg':
            code = inner[2].get('code')
            return ('Error', term_int(code), stored)
        if kind == 'Response':
            return ('Ack', None, stored)
        return 'other'

    tab = Table.build(paths, classify, outcome)

    def expected(v):
        if not v['valid']:
            return ('Error', 203, False)
        if v['stored']:
            return ('Ack', None, True)
        return ('Error', 202, True)

    bad, n = tab.compare({'valid': BOOL, 'stored': BOOL}, expected, consistent=lambda v: v['valid'] or not v['stored'])
    # rows for !valid must not depend on 'stored' (add_item is not even called)
    res.check(not bad, 'TABLE', anchor, 'announce_peer: bad token -> error 203 and nothing stored; stored -> ack; store full -> error 202', site=d.body.span,
              detail='; '.join('%s -> got %s want %s' % (v, g, e) for v, g, e in bad[:4]))


def rule_read_only(ctx, res, d):
    """no path reaches a query arm with read_only == true (path-sensitive: the gate is `read_only && is_request`)"""
    env = lib.coroutine_param_env(d.body)
    entries = {d.arms[a]: a for a in common.REQUEST_VARIANTS + ('Response', 'Error')}
    s = Sym(d.body, stop_at=set(entries.keys()))
    s.run(start=0, env=env)
    res.paths += len(s.paths)
    mb = common.enum_variants(ctx, 'message::MessageBody')
    reached = {a: 0 for a in common.REQUEST_VARIANTS}
    viol = []
    for p in s.paths:
        if p.end != 'stop':
            continue
        arm = entries[p.stop_block]
        if arm not in common.REQUEST_VARIANTS:
            continue
        ro = None
        kinds = None
        for c in p.conds:
            rel, a, b2, truth = literal(c)
            if rel == 'bool' and is_field_of_param(a, 'self', 'read_only'):
                ro = truth if ro is None else (ro and truth)
            if rel == 'variant' and is_param(root_of(a), 'message') and field_chain(a) == ['body']:
                allowed = {k for k in mb if (mb[k] not in b2[1])} if isinstance(b2, tuple) and b2[0] == 'not' else {k for k in mb if mb[k] == b2}
                kinds = allowed if kinds is None else kinds & allowed
        if kinds is not None and not kinds:
            continue  # infeasible: the two tests of the message kind contradict each other
        reached[arm] += 1
        if ro is not False:
            viol.append(arm)
    for arm in common.REQUEST_VARIANTS:
        res.check(arm not in viol and reached[arm] > 0, 'PRED', 'handle_incoming/' + arm,
                  'every feasible path into the query arm has read_only == false (%d paths)' % reached[arm], key='read-only:' + arm)
    # read_only is written only by DhtHandler::new, from the builder; the builder default is true
    ws = ctx.field_writes(r'^handler::DhtHandler$', 'read_only')
    res.check(not ws, 'WHO', 'handler::DhtHandler.read_only', 'read_only is never reassigned after construction', detail='%s' % [(b.path) for b, _, _ in ws])
    aggs = ctx.aggregates(adt='mainline_dht::DhtBuilder')
    okd = False
    for b, blk, st in aggs:
        if b.path == 'mainline_dht::MainlineDht::builder':
            i = st['rv']['fields'].index('read_only')
            op = st['rv']['ops'][i]
            okd = op.get('int') == 1
    res.check(okd, 'TABLE', 'mainline_dht::MainlineDht::builder', 'the builder defaults to read_only = true')


def rule_garbage(ctx, res):
    """Socket::recv: an undecodable datagram loops back without sending and without returning"""
    b = ctx.co('socket::Socket::recv')
    res.touch(b)
    s = Sym(b)
    s.run(env=lib.coroutine_param_env(b))
    res.paths += len(s.paths)
    n_err = 0
    ok = True
    for p in s.paths:
        dec = None
        for c in p.conds:
            rel, a, b2, truth = literal(c)
            if rel == 'variant' and a[0] == 'call' and a[1].startswith('bencode::decode'):
                dec = 'Ok' if b2 == 0 else 'Err'
        sent = [e for e in p.effects if e[0] == 'call' and e[1] and ('send' in e[1].split('::')[-1])]
        if dec == 'Err':
            n_err += 1
            if p.end != 'loop' or sent:
                ok = False
        if p.end == 'return' and agg_variant(p.ret) == 'Ok' and dec != 'Ok':
            ok = False
        if sent:
            ok = False
    res.check(ok and n_err >= 1, 'COUNT', 'socket::Socket::recv', 'a decode error stays in the receive loop: 0 sends, no return; recv never sends', site=b.span,
              detail='%d decode-error paths' % n_err)


def rule_no_answer_arms(ctx, res, d):
    for arm in ('Response', 'Error'):
        s = d.sends_in(arm)
        res.check(not s, 'COUNT', 'handle_incoming/' + arm, 'the %s arm contains no Socket::send' % arm, detail='%s' % s, key='no-send:' + arm)
    # everything a response can trigger (lookup / refresh / bootstrap code) builds only Request bodies: see WHO above


def run(ctx, res):
    common.rule_no_addr_canonicalisation(ctx, res)
    d = common.Dispatcher(ctx)
    rule_arms(ctx, res, d)
    rule_one_reply(ctx, res, d)
    rule_families(ctx, res)
    # .. and the families asked for are what the `want` list says (a repeated or unknown entry changes nothing)
    from . import c13
    c13.rule_want_decode(ctx, res)
    rule_reply_only_here(ctx, res, d)
    rule_error_codes(ctx, res, d)
    rule_read_only(ctx, res, d)
    rule_garbage(ctx, res)
    rule_no_answer_arms(ctx, res, d)
    common.rule_send_transmits(ctx, res)
