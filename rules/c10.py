"""C10 - contacts are classified good / questionable / bad per BEP5 timing (premises + lemma).

Decides, on the MIR of the current tree: the status decision function over its four predicates, the
3x3 update table, the write-sets of the event methods, the constants, the export tables and that the
query arms of the dispatcher only mark already-known nodes. The behavioural statement follows from
these premises by the hand lemma in DESIGN.md section 4/C10; the check decides the premises."""
from . import lib, common
from .lib import (Sym, Table, BOOL, Lost, literal, term_int, term_duration_ms, strip_transparent, is_field_of_param,
                  option_is_some, agg_variant, field_chain, root_of, is_param, find_calls, fmt)

EXPLANATION = __doc__
ASSUMPTIONS = [
    'Instant::now is monotone; Option/derived PartialEq/PartialOrd have std semantics',
    'hand lemma C10 (DESIGN.md section 4) connects the tables to the event-history statement',
]

STATUS = ('Bad', 'Questionable', 'Good')
FIFTEEN_MIN_MS = 15 * 60 * 1000


def status_values(ctx):
    d = common.enum_variants(ctx, 'node::NodeStatus')
    if set(d) != set(STATUS):
        raise Lost('NodeStatus variants %s' % sorted(d))
    return d


def status_atom(ctx, lit, subject_ok):
    """classify a literal that tests a NodeStatus value; returns set of allowed status names or None"""
    d = status_values(ctx)
    inv = {v: k for k, v in d.items()}
    rel, a, b, truth = lit
    if rel == 'eq':
        for x, y in ((a, b), (b, a)):
            v = agg_variant(y)
            if v in STATUS and isinstance(x, tuple) and x[0] == 'call' and x[1] == 'node::Node::status' and subject_ok(x):
                return {v} if truth else set(STATUS) - {v}
    if rel == 'variant' and isinstance(a, tuple) and a[0] == 'call' and a[1] == 'node::Node::status' and subject_ok(a):
        if isinstance(b, tuple) and b[0] == 'not':
            return set(STATUS) - {inv[x] for x in b[1] if x in inv}
        if b in inv:
            return {inv[b]}
    if rel == 'lt':
        # derived PartialOrd on the enum: order = declaration order
        for x, y, flip in ((a, b, False), (b, a, True)):
            v = agg_variant(y)
            if v in STATUS and isinstance(x, tuple) and x[0] == 'call' and x[1] == 'node::Node::status' and subject_ok(x):
                if not flip:
                    s = {n for n in STATUS if d[n] < d[v]}
                else:
                    s = {n for n in STATUS if d[v] < d[n]}
                return s if truth else set(STATUS) - s
    return None


def rule_consts(ctx, res):
    for name, want in (('node::MAX_LAST_SEEN_MINS', 15), ('node::MAX_REFRESH_REQUESTS', 2)):
        v = ctx.f.const_value(name)
        res.check(v == want, 'CONST', name, '%s == %d (BEP5: 15 minutes / two unanswered queries)' % (name, want),
                  site=(ctx.f.consts.get(name) or {}).get('span'), detail='value on this tree: %r' % (v,))
    off = ctx.f.duration_ms('time::OFFSET')
    res.check(off is not None and off >= FIFTEEN_MIN_MS, 'CONST', 'time::OFFSET',
              'time::OFFSET >= 15 min, so Instant::now().checked_sub(15 min) in Node::as_questionable cannot be None',
              detail='OFFSET = %r ms' % off)


def rule_status_table(ctx, res):
    body = ctx.body('node::Node::status')
    res.touch(body)
    sym = Sym(body)
    sym.run()
    res.paths += len(sym.paths)
    thresholds = {}

    def elapsed_field(t):
        # Instant::now() - self.<field>  (Sub::sub on time::Instant)
        t = strip_transparent(t)
        if not (isinstance(t, tuple) and t[0] == 'call' and t[1].endswith('::sub') and len(t[2]) == 2):
            return None
        now, then = strip_transparent(t[2][0]), strip_transparent(t[2][1])
        if not (now[0] == 'call' and now[1] == 'time::Instant::now'):
            return None
        fc = field_chain(then)
        if is_param(root_of(then), 'self') and fc and fc[0] in ('last_response', 'last_request') and fc[-1] == '0':
            return fc[0]
        return None

    def classify(lit, c):
        rel, a, b, truth = lit
        if rel == 'variant':
            for f in ('last_response', 'last_request'):
                if is_field_of_param(a, 'self', f):
                    s = option_is_some(b)
                    if s is None:
                        raise Lost('Node::status: odd Option test')
                    return ('has_' + f, s)
        if rel == 'lt':
            f = elapsed_field(a)
            ms = term_duration_ms(b, ctx.f)
            if f is not None and ms is not None:
                thresholds[f] = ms
                return ('recent_%s_%d' % (f, ms), truth)
            # strike counter
            if is_field_of_param(a, 'self', 'refresh_requests') and term_int(b) is not None:
                return ('strikes_lt_%d' % term_int(b), truth)
            if is_field_of_param(b, 'self', 'refresh_requests') and term_int(a) is not None:
                return ('strikes_lt_%d' % (term_int(a) + 1), not truth)
        raise Lost('Node::status: unrecognised condition %s %s %s' % (rel, fmt(a), fmt(b) if isinstance(b, tuple) else b))

    paths = sym.complete_paths()
    other = [p for p in sym.paths if p.end not in ('return',)]
    res.check(not other, 'TABLE', 'node::Node::status', 'status() is loop-free and has no diverging path',
              detail='%d non-returning paths' % len(other))
    tab = Table.build(paths, classify, lambda p: agg_variant(p.ret))
    A1, A2, A3, A4h, A4 = ('has_last_response', 'recent_last_response_%d' % FIFTEEN_MIN_MS, 'strikes_lt_2',
                           'has_last_request', 'recent_last_request_%d' % FIFTEEN_MIN_MS)

    def expected(v):
        if not v[A1]:
            return 'Bad'          # never answered
        if v[A2]:
            return 'Good'         # answered within 15 min
        if not v[A3]:
            return 'Bad'          # >= 2 unanswered queries while not good
        if v[A4h] and v[A4]:
            return 'Good'         # has answered before and queried us within 15 min
        return 'Questionable'

    def consistent(v):
        return (v[A1] or not v[A2]) and (v[A4h] or not v[A4])

    bad, n = tab.compare({A1: BOOL, A2: BOOL, A3: BOOL, A4h: BOOL, A4: BOOL}, expected, consistent)
    res.paths += n
    res.check(not bad, 'TABLE', 'node::Node::status',
              'status decision table over {answered, answered<15min, strikes<2, queried, queried<15min} equals the BEP5 table (%d valuations, %d paths)' % (n, len(paths)),
              site=body.span, detail='; '.join('%s -> got %s want %s' % (v, g, e) for v, g, e in bad[:4]))


def rule_update_table(ctx, res):
    body = ctx.body('node::Node::update')
    res.touch(body)
    sym = Sym(body)
    sym.run()
    res.paths += len(sym.paths)

    def subj(name):
        return lambda call: is_param(root_of(strip_transparent(call[2][0])), name) and not field_chain(strip_transparent(call[2][0]))

    order = status_values(ctx)
    PAIRS = [(a, b) for a in STATUS for b in STATUS]

    def which(t):
        t = strip_transparent(t)
        if isinstance(t, tuple) and t[0] == 'call' and t[1] == 'node::Node::status':
            r = strip_transparent(t[2][0])
            if not field_chain(r):
                if is_param(root_of(r), 'self'):
                    return 'S'
                if is_param(root_of(r), 'other'):
                    return 'O'
        return None

    def classify(lit, c):
        s = status_atom(ctx, lit, subj('self'))
        if s is not None:
            return ('SO', {p for p in PAIRS if p[0] in s})
        s = status_atom(ctx, lit, subj('other'))
        if s is not None:
            return ('SO', {p for p in PAIRS if p[1] in s})
        rel, a, b, truth = lit
        # comparison between the two statuses (derived order)
        if rel in ('lt', 'eq') and which(a) and which(b) and which(a) != which(b):
            def val(p, w):
                return order[p[0] if w == 'S' else p[1]]
            sel = {p for p in PAIRS if ((val(p, which(a)) < val(p, which(b))) if rel == 'lt' else (val(p, which(a)) == val(p, which(b)))) == truth}
            return ('SO', sel)
        if rel == 'eq' and {tuple(field_chain(a)), tuple(field_chain(b))} == {('handle',)}:
            return ('same_handle', truth)
        raise Lost('Node::update: unrecognised condition %s %s' % (rel, fmt(a)))

    node_fields = [fl['name'] for v in ctx.f.adts['node::Node'].get('variants', []) for fl in v['fields']]

    def src_of(v, fld):
        """where the new value of field `fld` comes from: ('self'|'other', field) | ('const', n) | ('?', text)"""
        v = strip_transparent(v)
        for who in ('self', 'other'):
            if is_field_of_param(v, who, fld):
                return (who, fld)
        k = term_int(v)
        if k is not None:
            return ('const', k)
        return ('?', fmt(v)[:60])

    def outcome(p):
        """the state of *self after the path, field by field (whole-struct assignment, struct rebuild and single
        field assignments are the same thing to this table)"""
        state = {f: ('self', f) for f in node_fields}
        replaced = False
        for _, place, val, _ in lib.writes_of(p):
            if place[0] == 'deref' and is_param(place[1], 'self'):
                v = strip_transparent(val) if val[0] != 'agg' else val
                if is_param(v, 'other'):
                    state = {f: ('other', f) for f in node_fields}
                    replaced = True
                elif v[0] == 'agg' and v[1] == 'node::Node::Node':
                    state = {f: src_of(v[2].get(f), f) for f in node_fields}
                    replaced = False
                else:
                    return 'other:%s' % fmt(v)
            elif is_param(root_of(place), 'self') and len(field_chain(place)) == 1 and field_chain(place)[0] in node_fields:
                f = field_chain(place)[0]
                state[f] = src_of(val, f)
            else:
                return 'write-elsewhere:%s' % fmt(place)
        if all(state[f] == ('self', f) for f in node_fields):
            return 'keep'
        if all(state[f] == ('other', f) for f in node_fields):
            return 'replace'
        merge = {f: ('self', f) for f in node_fields}
        merge['last_response'] = ('other', 'last_response')
        merge['refresh_requests'] = ('const', 0)
        if state == merge:
            return 'merge'
        return 'state:%s' % sorted((f, v) for f, v in state.items() if v != ('self', f))

    complete = sym.complete_paths()
    tab = Table.build(complete, classify, outcome)
    # every returning path has passed the handle-equality assertion
    guarded = all(r[0].get('same_handle') == frozenset({True}) for r in tab.rows)
    res.check(guarded and tab.rows, 'DOM', 'node::Node::update', 'every returning path passed assert_eq!(self.handle, other.handle)', site=body.span)

    def expected(v):
        s, o = v['SO']
        if s == 'Good' and o == 'Good':
            return 'merge'      # last_response := other's, strikes := 0, rest kept
        if (s, o) in (('Questionable', 'Good'), ('Bad', 'Good'), ('Bad', 'Questionable')):
            return 'replace'
        return 'keep'

    bad, n = tab.compare({'SO': PAIRS, 'same_handle': [True]}, expected)
    res.paths += n
    res.check(not bad, 'TABLE', 'node::Node::update', 'update table over (own status, offered status) equals the prescribed 3x3 table',
              site=body.span, detail='; '.join('%s -> got %s want %s' % (v, g, e) for v, g, e in bad[:4]))


def rule_event_methods(ctx, res):
    # remote_request: writes exactly last_request := Some(now)
    b = ctx.body('node::Node::remote_request')
    res.touch(b)
    sym = Sym(b)
    sym.run()
    ok = True
    for p in sym.complete_paths():
        ws = lib.writes_of(p)
        ok = ok and len(ws) == 1 and is_field_of_param(ws[0][1], 'self', 'last_request') and some_now(ws[0][2])
    res.check(ok and sym.complete_paths(), 'WRITESET', 'node::Node::remote_request', 'writes exactly {last_request := Some(Instant::now())}', site=b.span)

    # local_request: last_local_request := Some(now) always; strikes + 1 iff status != Good
    b = ctx.body('node::Node::local_request')
    res.touch(b)
    sym = Sym(b)
    sym.run()

    def classify(lit, c):
        s = status_atom(ctx, lit, lambda call: is_param(root_of(strip_transparent(call[2][0])), 'self'))
        if s is not None:
            return ('S', s)
        raise Lost('Node::local_request: unrecognised condition')

    def outcome(p):
        ws = lib.writes_of(p)
        names = []
        for w in ws:
            if is_field_of_param(w[1], 'self', 'last_local_request') and some_now(w[2]):
                names.append('local:=now')
            elif is_field_of_param(w[1], 'self', 'refresh_requests'):
                v = w[2]
                inc = False
                if v[0] == 'call' and v[1].endswith('saturating_add') and is_field_of_param(v[2][0], 'self', 'refresh_requests') and term_int(v[2][1]) == 1:
                    inc = True
                if v[0] == 'bin' and v[1] == 'Add' and is_field_of_param(v[2], 'self', 'refresh_requests') and term_int(v[3]) == 1:
                    inc = True
                names.append('strikes+1' if inc else 'strikes:=?')
            else:
                names.append('other:' + fmt(w[1]))
        return tuple(sorted(names))

    tab = Table.build(sym.complete_paths(), classify, outcome)

    def expected(v):
        return ('local:=now',) if v['S'] == 'Good' else ('local:=now', 'strikes+1')

    bad, n = tab.compare({'S': list(STATUS)}, expected)
    res.check(not bad, 'TABLE', 'node::Node::local_request',
              'marks the query time always and counts a strike iff the node is not good', site=b.span,
              detail='; '.join('%s -> got %s want %s' % (v, g, e) for v, g, e in bad[:4]))

    # constructors
    for fn, want in (('as_good', 'now'), ('as_questionable', 'now-15min'), ('as_bad', 'none')):
        b = ctx.body('node::Node::' + fn)
        res.touch(b)
        sym = Sym(b)
        sym.run()
        cps = sym.complete_paths()
        ok = len(cps) == 1
        got = None
        if ok:
            r = cps[0].ret
            ok = r[0] == 'agg' and r[1] == 'node::Node::Node'
            if ok:
                f = r[2]
                lr = f.get('last_response')
                if agg_variant(lr) == 'None':
                    got = 'none'
                elif some_now(lr):
                    got = 'now'
                elif agg_variant(lr) == 'Some':
                    inner = strip_unwrap(lr[2].get('0'))
                    if inner[0] == 'call' and inner[1].endswith('checked_sub') and is_now(inner[2][0]) and term_duration_ms(inner[2][1], ctx.f) == FIFTEEN_MIN_MS:
                        got = 'now-15min'
                    elif inner[0] == 'call' and inner[1].endswith('::sub') and is_now(inner[2][0]) and term_duration_ms(inner[2][1], ctx.f) == FIFTEEN_MIN_MS:
                        got = 'now-15min'
                ok = (got == want and agg_variant(f.get('last_request')) == 'None' and agg_variant(f.get('last_local_request')) == 'None'
                      and term_int(f.get('refresh_requests')) == 0)
        res.check(ok, 'TABLE', 'node::Node::' + fn, 'constructor: last_response = %s, never queried, no strikes' % want, site=b.span, detail='got %s' % got)


def is_now(t):
    t = strip_transparent(t)
    return isinstance(t, tuple) and t[0] == 'call' and t[1] == 'time::Instant::now'


def strip_unwrap(t):
    t = strip_transparent(t)
    while isinstance(t, tuple) and t[0] == 'call' and (t[1].endswith('::unwrap') or t[1].endswith('::expect')):
        t = strip_transparent(t[2][0])
    return t


def some_now(t):
    return agg_variant(t) == 'Some' and is_now(t[2].get('0'))


def rule_who_writes(ctx, res):
    """fields of Node are written only by the reviewed methods"""
    allowed = {
        'last_request': {'node::Node::remote_request'},
        'last_local_request': {'node::Node::local_request'},
        'refresh_requests': {'node::Node::local_request'},
        'last_response': set(),
        'handle': set(),
    }
    for field, ok_fns in allowed.items():
        ws = ctx.field_writes(r'^node::Node$', field)
        writers = {b.path for b, _, _ in ws}
        res.sites += len(ws)
        # Node::update may write any field: what it writes is decided field by field by the update table
        res.check(writers <= (ok_fns | {'node::Node::update'}), 'WHO', 'node::Node.' + field, 'field written only in %s' % (sorted(ok_fns) or 'constructors/update'),
                  detail='writers: %s' % sorted(writers), key='field-writers:' + field)
        mb = ctx.mut_borrows_of_field(r'^node::Node$', field)
        res.check(not mb, 'WHO', 'node::Node.' + field, 'no &mut to the field escapes', detail='%s' % [(b.path, s['sp']) for b, _, s in mb], key='field-mutborrow:' + field)
    aggs = ctx.aggregates(adt='node::Node')
    makers = {b.path for b, _, _ in aggs}
    res.sites += len(aggs)
    okm = {'node::Node::as_good', 'node::Node::as_questionable', 'node::Node::as_bad', 'node::Node::update'}
    for im in ctx.f.impls:
        if im['derived'] and im['self_ty'] == 'node::Node' and im['trait'] == 'std::clone::Clone':
            okm.add('<node::Node as std::clone::Clone>::clone')  # field-wise copy generated by #[derive(Clone)]
    res.check(makers <= okm and len(aggs) >= 3, 'WHO', 'node::Node', 'whole-Node values are built only by the three constructors and update',
              detail='builders: %s (%d sites)' % (sorted(makers), len(aggs)))


def rule_good_filters(ctx, res):
    """predicates used for export / offering: Good|Questionable -> live, Bad -> not"""
    for fn in ('node::Node::is_pingable', 'table::is_good_node'):
        b = ctx.body(fn)
        res.touch(b)
        sym = Sym(b)
        sym.run()

        def classify(lit, c):
            s = status_atom(ctx, lit, lambda call: True)
            if s is not None:
                return ('S', s)
            raise Lost('%s: unrecognised condition' % fn)

        tab = lib.bool_table(sym.complete_paths(), classify)
        bad, n = tab.compare({'S': list(STATUS)}, lambda v: v['S'] in ('Good', 'Questionable'))
        res.check(not bad, 'TABLE', fn, 'live-node predicate: Good,Questionable -> true; Bad -> false', site=b.span,
                  detail='; '.join('%s -> got %s want %s' % (v, g, e) for v, g, e in bad[:4]))
    for fn, want in (('table::RoutingTable::num_good_nodes::{closure#0}', 'Good'), ('table::RoutingTable::num_questionable_nodes::{closure#0}', 'Questionable')):
        b = ctx.body(fn)
        res.touch(b)
        sym = Sym(b)
        sym.run()

        def classify(lit, c):
            s = status_atom(ctx, lit, lambda call: True)
            if s is not None:
                return ('S', s)
            raise Lost('%s: unrecognised condition' % fn)

        tab = lib.bool_table(sym.complete_paths(), classify)
        bad, n = tab.compare({'S': list(STATUS)}, lambda v, w=want: v['S'] == w)
        res.check(not bad, 'TABLE', fn, 'counter filter selects exactly status == %s' % want, site=b.span,
                  detail='; '.join('%s -> got %s want %s' % (v, g, e) for v, g, e in bad[:4]))
        # and it filters the closest_nodes enumeration (which itself only yields live nodes)
    # load_contacts: Good -> first set, Questionable -> second set, Bad -> neither
    b = ctx.body('table::RoutingTable::load_contacts')
    res.touch(b)
    sym = Sym(b)
    sym.run()
    rets = sym.complete_paths()
    if not rets:
        raise Lost('load_contacts has no returning path')
    r0 = rets[0].ret
    if not (r0[0] == 'agg' and r0[1] == 'tuple'):
        raise Lost('load_contacts does not return a tuple')
    def set_id(t):
        t = strip_transparent(t)
        # a set local grown inside the loops is a loop-carried variable: identify it by its local
        return ('local', t[1]) if isinstance(t, tuple) and t[0] == 'loopvar' else t

    sets = {set_id(r0[2].get('0')): 'good', set_id(r0[2].get('1')): 'questionable'}

    def classify(lit, c):
        s = status_atom(ctx, lit, lambda call: True)
        if s is not None:
            return ('S', s)
        rel, a, b2, truth = lit
        if rel == 'variant' and isinstance(a, tuple) and a[0] == 'call' and a[1].endswith('::next'):
            return None  # loop control
        raise Lost('load_contacts: unrecognised condition %s %s' % (rel, fmt(a)))

    def outcome(p):
        outs = []
        for e in lib.calls_of(p, '::insert'):
            tgt = set_id(e[2][0])
            outs.append(sets.get(tgt, 'other'))
            val = e[2][1]
            via_handle = 'addr' in field_chain(val) and find_calls(val, 'Node::handle')
            v2 = strip_transparent(val)
            via_addr = isinstance(v2, tuple) and v2[0] == 'call' and v2[1] == 'node::Node::addr' and node_addr_is_handle_addr(ctx)
            if not (via_handle or via_addr):
                outs.append('not-the-node-address')
        return tuple(outs)

    iters = [p for p in sym.paths if p.end == 'loop' and any(literal(c)[0] in ('eq', 'lt') or (literal(c)[0] == 'variant' and 'status' in fmt(literal(c)[1])) for c in p.conds)]
    tab = Table.build(iters, classify, outcome)

    def expected(v):
        return {'Good': ('good',), 'Questionable': ('questionable',), 'Bad': ()}[v['S']]

    bad, n = tab.compare({'S': list(STATUS)}, expected)
    res.check(not bad and iters, 'TABLE', 'table::RoutingTable::load_contacts', 'export table: Good -> first set, Questionable -> second set, Bad -> neither',
              site=b.span, detail='; '.join('%s -> got %s want %s' % (v, g, e) for v, g, e in bad[:4]))


def node_addr_is_handle_addr(ctx):
    """Node::addr() returns self.handle.addr"""
    b = ctx.f.body('node::Node::addr')
    if b is None:
        return False
    s = Sym(b)
    s.run()
    cps = s.complete_paths()
    return len(cps) == 1 and field_chain(strip_transparent(cps[0].ret)) == ['handle', 'addr'] and is_param(root_of(strip_transparent(cps[0].ret)), 'self')


def rule_queries_mark_only(ctx, res):
    """in each of the 4 request arms the only routing-table/node calls are find_node_mut -> remote_request
    (a query never admits its sender; it refreshes an already known node)"""
    d = common.Dispatcher(ctx)
    res.touch(d.body)
    allowed = {'table::RoutingTable::find_node_mut', 'node::Node::remote_request', 'node::NodeHandle::new',
               'table::RoutingTable::closest_nodes', 'node::Node::addr', 'node::Node::handle'}
    for arm in common.REQUEST_VARIANTS:
        reg = d.region(arm)
        sites = common.table_calls(ctx, d.body, reg)
        res.sites += len(sites)
        names = {s.callee for s in sites}
        marks = [s for s in sites if s.callee == 'node::Node::remote_request']
        finds = [s for s in sites if s.callee == 'table::RoutingTable::find_node_mut']
        ok = names <= allowed and len(marks) == 1 and len(finds) == 1
        # remote_request is applied to the result of find_node_mut (Some edge)
        res.check(ok, 'WHO', 'handle_incoming/' + arm, 'query arm touches the table only through find_node_mut -> remote_request (1 each)',
                  site=(marks[0].where if marks else None), detail='table/node calls: %s' % sorted(names), key='arm-table-calls:' + arm)


def run(ctx, res):
    common.rule_closed_world(ctx, res)
    rule_consts(ctx, res)
    rule_status_table(ctx, res)
    rule_update_table(ctx, res)
    rule_event_methods(ctx, res)
    rule_who_writes(ctx, res)
    rule_good_filters(ctx, res)
    rule_queries_mark_only(ctx, res)
    common.rule_request_mark_sites(ctx, res)
    common.rule_find_node_identity(ctx, res)
    # "good only if it answered one of this node's queries": a response reaches the table only for a live search or the refresh
    from . import c12
    c12.rule_response_routing(ctx, res)
