"""C07 - peer store: exact, duplicate-free, 24-hour, capacity-bounded answers (premises + lemma).

Decides the premises of the hand lemma in DESIGN.md section 4/C07: constants 500 / 86 400 s, the
insert decision table (present x room), renewal = remove-then-append, the expiry queue is only ever
mutated by push / retain / drain-of-a-prefix, expiry runs before every read and write, pair identity
is (address, info-hash), the contact-address table (explicit port / implied port), the keys used by
the handler, and who may write the store."""
import re
from . import lib, common, c05
from .lib import (Sym, Table, BOOL, Lost, literal, term_int, strip_transparent, is_field_of_param, option_is_some,
                  agg_variant, field_chain, root_of, is_param, find_calls, fmt)

EXPLANATION = __doc__
ASSUMPTIONS = ['Vec::push appends, Vec::retain keeps order, Vec::drain(0..n) removes exactly the first n, HashMap semantics',
               'Instant::now() is monotone (the expiry queue is ordered by insertion time because it only grows by push(now))',
               'lemma C07 (DESIGN.md section 4)']

S = 'storage::AnnounceStorage::'


def closure_ret(ctx, res, term):
    """single return term of a closure value ('closure', path, caps)"""
    if not (isinstance(term, tuple) and term[0] == 'closure'):
        return None
    b = ctx.body(term[1])
    res.touch(b)
    s = Sym(b)
    s.run()
    cps = s.complete_paths()
    if len(cps) != 1:
        return None
    return cps[0].ret


def rule_consts(ctx, res):
    v = ctx.f.const_value('storage::MAX_ITEMS_STORED')
    res.check(v == 500, 'CONST', 'storage::MAX_ITEMS_STORED', 'MAX_ITEMS_STORED == 500', detail=str(v))
    ms = ctx.f.duration_ms('storage::EXPIRATION_TIME')
    res.check(ms == 86400 * 1000, 'CONST', 'storage::EXPIRATION_TIME', 'EXPIRATION_TIME == 24 h', detail=str(ms))


def rule_identity(ctx, res):
    """pair identity = (address, info_hash); the insertion time is not part of it"""
    b = ctx.body('<storage::ItemExpiration as std::cmp::PartialEq>::eq')
    res.touch(b)
    s = Sym(b)
    s.run()

    def classify(lit, c):
        rel, a, b2, truth = lit
        if rel == 'eq':
            names = set()
            for t in (a, b2):
                t = strip_transparent(t)
                if t[0] == 'call' and t[1].startswith('storage::ItemExpiration::'):
                    names.add((t[1].split('::')[-1], root_of(strip_transparent(t[2][0]))[2]))
                elif field_chain(t):
                    names.add((field_chain(t)[-1], root_of(t)[2]))
            fs = {n for n, _ in names}
            who = {w for _, w in names}
            if len(fs) == 1 and who == {'self', 'other'} and list(fs)[0] in ('address', 'info_hash'):
                return (list(fs)[0], truth)
        raise Lost('ItemExpiration::eq: unrecognised condition %s' % fmt(a))

    tab = lib.bool_table(s.complete_paths(), classify)
    bad, n = tab.compare({'address': BOOL, 'info_hash': BOOL}, lambda v: v['address'] and v['info_hash'])
    res.check(not bad, 'TABLE', b.path, 'two entries are the same pair iff address and info-hash agree (insertion time ignored)', detail='; '.join('%s -> got %s want %s' % x for x in bad[:3]))
    ib = ctx.body('<storage::AnnounceItem as std::cmp::PartialEq>::eq')
    derived = ctx.is_derived(ib.path)
    adt = ctx.f.adts.get('storage::AnnounceItem')
    fields = [f['name'] for f in adt['variants'][0]['fields']] if adt else None
    res.check(derived and fields == ['expiration'], 'TYPE', 'storage::AnnounceItem', 'AnnounceItem equality is the derived equality of its single `expiration` field', detail='%s %s' % (derived, fields))
    for fn, fld in (('storage::ItemExpiration::info_hash', 'info_hash'), ('storage::ItemExpiration::address', 'address'), ('storage::AnnounceItem::address', None), ('storage::AnnounceItem::info_hash', None)):
        gb = ctx.body(fn)
        res.touch(gb)
        gs = Sym(gb)
        gs.run()
        cps = gs.complete_paths()
        if fld:
            ok = len(cps) == 1 and is_field_of_param(cps[0].ret, 'self', fld)
        else:
            want = 'storage::ItemExpiration::' + fn.split('::')[-1]
            ok = len(cps) == 1 and cps[0].ret[0] == 'call' and cps[0].ret[1] == want and field_chain(strip_transparent(cps[0].ret[2][0])) == ['expiration']
        res.check(ok, 'TABLE', fn, 'accessor returns the stored %s' % fn.split('::')[-1])
    nb = ctx.body('storage::ItemExpiration::new')
    res.touch(nb)
    ns = Sym(nb)
    ns.run()
    cps = ns.complete_paths()
    r = cps[0].ret if len(cps) == 1 else ('x',)
    ok = (r[0] == 'agg' and is_param(strip_transparent(r[2].get('address')), 'address') and is_param(strip_transparent(r[2].get('info_hash')), 'info_hash')
          and strip_transparent(r[2].get('inserted'))[0] == 'call' and strip_transparent(r[2].get('inserted'))[1] == 'time::Instant::now')
    res.check(ok, 'TABLE', nb.path, 'a new entry records (address, info-hash, inserted = now)')


def rule_insert_table(ctx, res):
    b = ctx.body(S + 'insert_contact')
    res.touch(b)
    s = Sym(b)
    s.run()
    res.paths += len(s.paths)
    limit = ctx.f.const_value('storage::MAX_ITEMS_STORED')

    def classify(lit, c):
        rel, a, b2, truth = lit
        if rel == 'variant' and a[0] == 'call' and a[1].split('::')[-1] in ('get_mut', 'get') and is_field_of_param(a[2][0], 'self', 'storage'):
            return ('has_list', option_is_some(b2))
        if rel == 'bool' and a[0] == 'call' and a[1].split('::')[-1] == 'contains' and len(a[2]) == 2 and is_param(strip_transparent(a[2][1]), 'item') \
                and any(x[1].split('::')[-1] in ('get', 'get_mut') and is_field_of_param(x[2][0], 'self', 'storage') for x in find_calls(a[2][0], '::get') + find_calls(a[2][0], '::get_mut')):
            return ('in_list', truth)
        if rel == 'bool' and a[0] == 'call' and a[1].endswith('::any'):
            r = closure_ret(ctx, res, a[2][1])
            ok = r is not None and r[0] == 'call' and lib.cmp_kind_of_call(r[1]) == 'eq' and 'item' in fmt(r)
            if not ok:
                raise Lost('insert_contact: membership test is not `== item`')
            return ('in_list', truth)
        if rel == 'lt' and a[0] == 'call' and a[1].endswith('::len') and is_field_of_param(a[2][0], 'self', 'expires') and term_int(b2) == limit:
            return ('room', truth)
        if rel == 'variant' and a[0] == 'call' and a[1].endswith('::entry'):
            return None
        raise Lost('insert_contact: unrecognised condition %s %s' % (rel, fmt(a)))

    def outcome(p):
        r = p.ret
        kind = agg_variant(r)
        val = term_int(r[2].get('0')) if kind == 'Some' else None
        appended = False
        other = []
        for e in p.effects:
            if e[0] != 'call' or e[1] is None:
                continue
            n = e[1].split('::')[-1]
            if n == 'push' and is_param(strip_transparent(e[2][1]), 'item'):
                appended = True
            elif n == 'insert' and 'Vacant' in fmt(e[2][0]):
                appended = True
            elif n in ('remove', 'clear', 'retain', 'drain', 'pop', 'truncate', 'swap_remove'):
                other.append(n)
        return (kind, val, appended, tuple(other))

    tab = Table.build(s.complete_paths(), classify, outcome)
    # the three outcomes are told apart by the value returned (Option<bool> on the reviewed tree; any type with three
    # distinguishable values will do): present -> R1, nothing written; new & room -> R2, appended; new & full -> R3, nothing written
    roles = {}
    okr = True
    for hl in (False, True):
        for il in (False, True):
            for rm in (False, True):
                if il and not hl:
                    continue
                role = 'present' if (hl and il) else 'added' if rm else 'full'
                outs = set(tab.lookup({'has_list': hl, 'in_list': il, 'room': rm}))
                if not outs:
                    okr = False
                roles.setdefault(role, set()).update(outs)
    why = []
    keys = {}
    for role, outs in roles.items():
        if len({(k, v) for k, v, _a, _o in outs}) != 1:
            okr = False
            why.append('%s -> %s' % (role, sorted(map(str, outs))[:3]))
            continue
        k, v, _a, _o = next(iter(outs))
        keys[role] = (k, v)
        want_append = role == 'added'
        if any(a is not want_append or o for _k, _v, a, o in outs):
            okr = False
            why.append('%s writes %s' % (role, sorted(map(str, outs))[:3]))
    if len(set(keys.values())) != 3 or any(k is None for k, _v in keys.values()):
        okr = False
        why.append('the three outcomes are not told apart by the returned value: %s' % keys)
    extra = [a for val, out, p_ in tab.rows for a in val if a not in ('has_list', 'in_list', 'room')]
    res.check(okr and not extra, 'TABLE', b.path, 'insert table: present -> Some(true), nothing written; new & room (< 500 live pairs) -> appended, Some(false); new & full -> None, nothing written',
              site=b.span, detail='; '.join(why[:3]))
    ctx.__dict__['_c07_result_roles'] = {v: k for k, v in keys.items()} if okr else None


def rule_add_table(ctx, res):
    b = ctx.body(S + 'add')
    res.touch(b)
    s = Sym(b)
    s.run()
    res.paths += len(s.paths)

    role_of = ctx.__dict__.get('_c07_result_roles') or {('Some', 1): 'present', ('Some', 0): 'added', ('None', None): 'full'}
    ROLES = ['present', 'added', 'full']
    ret_adt = None
    for k_, _v in role_of:
        pass
    variants = {}
    fnrec = ctx.f.fns.get(S + 'insert_contact') or {}
    m_ = re.search(r'->\s*([A-Za-z_0-9:]+)\s*$', (fnrec.get('sig') or ''))
    if m_ and ctx.f.adts.get(m_.group(1)):
        variants = {v: k for k, v in common.enum_variants(ctx, m_.group(1)).items()}      # discriminant -> name

    def classify(lit, c):
        rel, a, b2, truth = lit
        if rel == 'variant' and a[0] == 'call' and a[1] == S + 'insert_contact':
            if all(k in ('Some', 'None') for k, _v in role_of):
                return ('role', {r for (k, _v), r in role_of.items() if (k == 'Some') == bool(option_is_some(b2))})
            # a private result enum: the discriminant names the outcome
            if isinstance(b2, tuple) and b2[0] == 'not':
                names = {variants.get(d) for d in variants if d not in b2[1]}
            else:
                names = {variants.get(b2)}
            return ('role', {r for (k, _v), r in role_of.items() if k in names})
        if rel == 'bool' and field_chain(a) == ['0'] and find_calls(a, 'insert_contact'):
            return ('role', {r for (k, v), r in role_of.items() if k == 'Some' and bool(v) == bool(truth)})
        raise Lost('add: unrecognised condition %s' % fmt(a))

    def outcome(p):
        seq = []
        for e in p.effects:
            if e[0] != 'call' or e[1] is None:
                continue
            n = e[1].split('::')[-1]
            if e[1] == S + 'remove_expired_items':
                seq.append('expire(%s)' % ('curr_time' if is_param(strip_transparent(e[2][1]), 'curr_time') else '?'))
            elif e[1] == S + 'insert_contact':
                it = strip_transparent(e[2][1])
                good = it[0] == 'call' and it[1] == 'storage::AnnounceItem::new' and is_param(strip_transparent(it[2][0]), 'info_hash') and is_param(strip_transparent(it[2][1]), 'address')
                seq.append('insert' if good else 'insert?')
            elif n in ('push', 'push_back', 'push_front', 'retain', 'remove', 'clear', 'drain', 'truncate', 'pop', 'pop_front', 'pop_back', 'insert', 'swap_remove') and is_field_of_param(e[2][0], 'self', 'expires'):
                if n == 'retain':
                    r = closure_ret(ctx, res, e[2][1])
                    good = r is not None and r[0] == 'call' and lib.cmp_kind_of_call(r[1]) == 'ne' and 'item_expiration' in fmt(r)
                    if not good and isinstance(e[2][1], tuple) and e[2][1] and e[2][1][0] == 'closure':
                        # whatever the local is called: with the captured value substituted the closure keeps `x != expiration(this pair)`
                        try:
                            _cb, cs2 = lib.closure_sym(ctx, e[2][1], res)
                            c2 = cs2.complete_paths()
                            r2 = c2[0].ret if len(c2) == 1 and not c2[0].conds else None
                            if r2 is not None and r2[0] == 'call' and lib.cmp_kind_of_call(r2[1]) == 'ne':
                                x_, y_ = strip_transparent(r2[2][0]), strip_transparent(r2[2][1])
                                for el, cap in ((x_, y_), (y_, x_)):
                                    if is_param(root_of(el)) and root_of(el)[1] == 2 and not field_chain(el) and isinstance(cap, tuple) and cap[0] == 'call' \
                                            and cap[1] == 'storage::AnnounceItem::expiration' and find_calls(cap, 'AnnounceItem::new'):
                                        good = True
                        except (Lost, IndexError, TypeError):
                            pass
                    seq.append('retain(!= this pair)' if good else 'retain(?)')
                elif n in ('push', 'push_back'):          # appended at the end of the queue (Vec::push / VecDeque::push_back)
                    v = strip_transparent(e[2][1])
                    good = v[0] == 'call' and v[1] == 'storage::AnnounceItem::expiration' and find_calls(v, 'AnnounceItem::new')
                    seq.append('push(this pair)' if good else 'push(?)')
                else:
                    seq.append(n)
        return (term_int(p.ret), tuple(seq))

    tab = Table.build(s.complete_paths(), classify, outcome)

    def expected(v):
        if v['role'] == 'full':
            return (0, ('expire(curr_time)', 'insert'))
        if v['role'] == 'present':
            return (1, ('expire(curr_time)', 'insert', 'retain(!= this pair)', 'push(this pair)'))
        return (1, ('expire(curr_time)', 'insert', 'push(this pair)'))

    bad, n = tab.compare({'role': ROLES}, expected)
    res.check(not bad, 'TABLE', b.path, 'add: expire first; renewal = remove the pair from the queue then append it; new = append; refused = false and the queue untouched',
              site=b.span, detail='; '.join('%s -> got %s want %s' % x for x in bad[:3]))
    ab = ctx.body(S + 'add_item')
    res.touch(ab)
    asym = Sym(ab)
    asym.run()
    cps = asym.complete_paths()
    ok = len(cps) == 1 and cps[0].ret[0] == 'call' and cps[0].ret[1] == S + 'add' and [fmt(strip_transparent(x)) for x in cps[0].ret[2][1:3]] == ['info_hash', 'address'] \
        and strip_transparent(cps[0].ret[2][3])[1] == 'time::Instant::now'
    res.check(ok, 'FLOW', ab.path, 'add_item(h, a) = add(h, a, now)')


def rule_find(ctx, res):
    b = ctx.body(S + 'find')
    res.touch(b)
    s = Sym(b)
    s.run()
    ok = bool(s.complete_paths())
    for p in s.complete_paths():
        names = [e[1] for e in p.effects if e[0] == 'call' and e[1] and (e[1].startswith('storage::') or 'HashMap' in e[1])]
        if not names or names[0] != S + 'remove_expired_items':
            ok = False
        pl = c05.pipeline(p.ret)
        src = pl[0][1]
        names_ = [x[0] for x in pl]
        mapper = pl[-1][1] if len(pl[-1]) > 1 else None
        if isinstance(mapper, tuple) and mapper and mapper[0] == 'fn':
            maps_addr = mapper[1] == 'storage::AnnounceItem::address'
        else:
            r = closure_ret(ctx, res, mapper) if mapper is not None else None
            maps_addr = r is not None and r[0] == 'call' and r[1] == 'storage::AnnounceItem::address'
        if not maps_addr:
            ok = False
        is_get = lambda t: isinstance(t, tuple) and t[0] == 'call' and t[1].endswith('::get') and is_field_of_param(t[2][0], 'self', 'storage') and is_param(strip_transparent(t[2][1]), 'info_hash')
        if names_ == ['src', 'into_iter', 'flatten', 'map']:
            if not is_get(src):
                ok = False
        elif names_ == ['src', 'iter', 'map']:
            # form B: `match storage.get(h) { Some(list) => list, None => &[] }.iter().map(address)`
            found = [literal(c) for c in p.conds if literal(c)[0] == 'variant' and is_get(literal(c)[1])]
            s0 = src
            while isinstance(s0, tuple) and s0 and (s0[0] in ('ref', 'deref', 'cast') or (s0[0] == 'call' and len(s0[2]) == 1 and s0[1].split('::')[-1] in ('deref', 'as_slice', 'as_ref'))):
                s0 = s0[1] if s0[0] != 'call' else s0[2][0]
            if len(found) != 1:
                ok = False
            elif option_is_some(found[0][2]):
                if s0 != ('field', ('downcast', found[0][1], 'Some'), '0'):
                    ok = False
            elif not (isinstance(s0, tuple) and len(s0) == 2 and s0[0] == 'array' and s0[1] == ()):
                ok = False
        else:
            ok = False
    res.check(ok, 'FLOW', b.path, 'find: expire first, then every stored address of exactly the list under the queried info-hash', site=b.span)
    fb = ctx.body(S + 'find_items')
    fs = Sym(fb)
    fs.run()
    cps = fs.complete_paths()
    ok = len(cps) == 1 and cps[0].ret[0] == 'call' and cps[0].ret[1] == S + 'find' and is_param(strip_transparent(cps[0].ret[2][1]), 'info_hash') and strip_transparent(cps[0].ret[2][2])[1] == 'time::Instant::now'
    res.check(ok, 'FLOW', fb.path, 'find_items(h) = find(h, now)')


def _expiry_head_loop(ctx, res, rs):
    """expiry written as `while queue.front() is expired { let e = queue.pop_front(); remove e's pair from its list }`"""
    def on_queue(t):
        return is_field_of_param(t, 'self', 'expires')
    MUT = ('push', 'push_back', 'push_front', 'pop_back', 'retain', 'remove', 'clear', 'drain', 'truncate', 'insert', 'swap_remove', 'append', 'extend')
    n_iter = 0
    for p in rs.paths:
        calls = [e for e in p.effects if e[0] == 'call' and e[1]]
        qops = [e for e in calls if e[2] and on_queue(e[2][0])]
        names = [e[1].split('::')[-1] for e in qops]
        if any(n in MUT for n in names):
            return False, 'the queue is changed other than by pop_front'
        head = [literal(c) for c in p.conds[:2]]
        front_some = head and head[0][0] == 'variant' and isinstance(head[0][1], tuple) and head[0][1][0] == 'call' and head[0][1][1].endswith('::front') and on_queue(head[0][1][2][0])
        if not front_some:
            return False, 'the loop does not start by looking at the head of the queue'
        has_head = option_is_some(head[0][2])
        expired = None
        if has_head and len(head) > 1 and head[1][0] == 'bool' and isinstance(head[1][1], tuple) and head[1][1][0] == 'call' and head[1][1][1] == 'storage::ItemExpiration::is_expired':
            elem = strip_transparent(head[1][1][2][0])
            if elem == ('field', ('downcast', head[0][1], 'Some'), '0') and is_param(strip_transparent(head[1][1][2][1]), 'curr_time'):
                expired = head[1][3]
        pops = [e for e in qops if e[1].endswith('::pop_front')]
        if p.end == 'return':
            if pops or not (has_head is False or expired is False):
                return False, 'the loop is left (or pops) on another condition than "queue empty / head not expired"'
            continue
        if p.end != 'loop':
            return False, 'unexpected exit'
        if not (has_head and expired is True and len(pops) == 1):
            return False, 'an iteration does not pop exactly the expired head'
        n_iter += 1
        popped = [literal(c) for c in p.conds if literal(c)[0] == 'variant' and literal(c)[1] == ('call',) + tuple(pops[0][1:4])]
        got = popped and option_is_some(popped[0][2])
        rt = [x for x in calls if x[1].endswith('::retain')]
        if not got:
            if rt or any(x[1].endswith('::remove') for x in calls):
                return False, 'lists are touched without a popped entry'
            continue
        pay = ('field', ('downcast', ('call',) + tuple(pops[0][1:4]), 'Some'), '0')
        # the list of the popped pair: storage.entry(popped.info_hash()) / storage.get_mut(&popped.info_hash())
        lk = [literal(c) for c in p.conds if literal(c)[0] == 'variant' and isinstance(literal(c)[1], tuple) and literal(c)[1][0] == 'call'
              and literal(c)[1][1].split('::')[-1] in ('entry', 'get_mut') and is_field_of_param(literal(c)[1][2][0], 'self', 'storage')]
        if len(lk) != 1:
            return False, 'the list of the popped pair is not looked up exactly once'
        key = strip_transparent(lk[0][1][2][1])
        key_ok = (isinstance(key, tuple) and key[0] == 'call' and key[1] == 'storage::ItemExpiration::info_hash' and strip_transparent(key[2][0]) == pay) or \
                 (field_chain(key)[-1:] == ['info_hash'] and any(x == pay for x in lib.term_walk(key)))
        if not key_ok:
            return False, 'the list looked up is not the one under the popped pair\'s info-hash'
        present = (lk[0][2] == 0) if lk[0][1][1].endswith('::entry') else option_is_some(lk[0][2])      # Entry::Occupied = 0
        if not present:
            if rt:
                return False, 'retain without a list'
            continue
        if len(rt) != 1 or not (isinstance(rt[0][2][1], tuple) and rt[0][2][1] and rt[0][2][1][0] == 'closure'):
            return False, 'the popped pair is not removed from its list by one retain'
        good_r = False
        try:
            _cb, cs2 = lib.closure_sym(ctx, rt[0][2][1], res)
            c2 = cs2.complete_paths()
            r2 = c2[0].ret if len(c2) == 1 and not c2[0].conds else None
            if r2 is not None and r2[0] == 'call' and lib.cmp_kind_of_call(r2[1]) == 'ne':
                x_, y_ = strip_transparent(r2[2][0]), strip_transparent(r2[2][1])
                for el, cap in ((x_, y_), (y_, x_)):
                    ec = find_calls(el, 'AnnounceItem::expiration')
                    base = strip_transparent(ec[0][2][0]) if ec else el
                    if (bool(ec) or field_chain(el)[-1:] == ['expiration']) and is_param(root_of(base)) and root_of(base)[1] == 2 and cap == pay:
                        good_r = True
        except (Lost, IndexError, TypeError):
            pass
        if not good_r:
            return False, 'the retain does not keep exactly the entries that differ from the popped pair'
        emp = [literal(c)[3] for c in p.conds if literal(c)[0] == 'bool' and literal(c)[1][0] == 'call' and literal(c)[1][1].endswith('::is_empty')]
        rem = [x for x in calls if x[1].split('::')[-1] in ('remove', 'remove_entry') and ('OccupiedEntry' in x[1] or is_field_of_param(x[2][0], 'self', 'storage'))]
        if not emp or (emp[-1] is True) != bool(rem):
            return False, 'an emptied list is not dropped (or a non-empty one is)'
    return (n_iter >= 2), ('' if n_iter >= 2 else 'no iteration found')


def rule_expiry(ctx, res):
    b = ctx.body('storage::ItemExpiration::is_expired')
    res.touch(b)
    s = Sym(b)
    s.run()
    cps = s.complete_paths()
    ok = False
    if len(cps) == 1:
        rel, a, b2, truth = literal((cps[0].ret, ('not', (0,)), -1))
        # expired <=> !(now - inserted < EXPIRATION_TIME)
        ok = (rel == 'lt' and truth is False and a[0] == 'call' and a[1].endswith('::sub') and is_param(strip_transparent(a[2][0]), 'now')
              and is_field_of_param(a[2][1], 'self', 'inserted') and b2 == ('named', 'storage::EXPIRATION_TIME'))
    res.check(ok, 'TABLE', b.path, 'expired <=> now - inserted >= EXPIRATION_TIME')
    rb = ctx.body(S + 'remove_expired_items')
    res.touch(rb)
    rs = Sym(rb)
    rs.run()
    res.paths += len(rs.paths)
    if not any(e[0] == 'call' and e[1] and e[1].endswith('::drain') for p in rs.paths for e in p.effects) \
            and any(e[0] == 'call' and e[1] and e[1].endswith('::pop_front') for p in rs.paths for e in p.effects):
        okb, whyb = _expiry_head_loop(ctx, res, rs)
        res.check(okb, 'TABLE', rb.path, 'expiry drains exactly the longest expired prefix of the queue and removes each drained pair from its list (dropping emptied lists)', site=rb.span, detail=whyb)
        return
    okd = True
    nloop = 0
    for p in rs.paths:
        dr = [e for e in p.effects if e[0] == 'call' and e[1] and e[1].endswith('::drain')]
        if not dr and p.end == 'loop' and not any(x[0] == 'call' and x[1] and x[1].split('::')[-1] in ('retain', 'remove', 'push', 'clear', 'insert') for x in p.effects):
            continue      # an iteration of a counting loop that precedes the drain (judged through lib.prefix_count below)
        if len(dr) != 1:
            okd = False
            continue
        e = dr[0]
        rng = e[2][1]
        good = is_field_of_param(e[2][0], 'self', 'expires') and rng[0] == 'agg' and (term_int(rng[2].get('start')) == 0 or (rng[1].startswith('std::ops::RangeTo::') and rng[2].get('start') is None))
        end = rng[2].get('end') if good else None
        if good and isinstance(strip_transparent(end), tuple) and strip_transparent(end)[0] == 'loopvar':
            # the prefix length counted by a loop: `for e in &expires { if !e.is_expired(now) { break } n += 1 }`
            try:
                pc = lib.prefix_count(rs, strip_transparent(end))
                def expired_test(lits, want):
                    ls = [literal(c) for c in lits]
                    return len(ls) == 1 and ls[0][0] == 'bool' and ls[0][3] is want and isinstance(ls[0][1], tuple) and ls[0][1][0] == 'call' and ls[0][1][1] == 'storage::ItemExpiration::is_expired' \
                        and pc['is_elem'](ls[0][1][2][0]) and is_param(strip_transparent(ls[0][1][2][1]), 'curr_time')
                good = (is_field_of_param(pc['src'], 'self', 'expires') or field_chain(strip_transparent(pc['src']))[-1:] == ['expires']) \
                    and all(expired_test(l, True) for l in pc['counting']) and pc['leaving'] and all(expired_test(l, False) for l in pc['leaving'])
            except Lost:
                good = False
        elif good and isinstance(strip_transparent(end), tuple) and strip_transparent(end)[0] == 'call' and strip_transparent(end)[1].endswith('::unwrap_or') \
                and find_calls(strip_transparent(end)[2][0], '::position'):
            # index of the first entry that is not expired, the whole length when there is none:
            # `expires.iter().position(|e| !e.is_expired(now)).unwrap_or(expires.len())`
            uo = strip_transparent(end)
            pos = strip_transparent(uo[2][0])
            dflt = strip_transparent(uo[2][1])
            def over_expires(t):
                t = strip_transparent(t)
                return is_field_of_param(t, 'self', 'expires') or (isinstance(t, tuple) and t and t[0] == 'field' and field_chain(t) == ['expires'] and is_param(root_of(t), 'self'))
            good = pos[0] == 'call' and pos[1].endswith('::position') and over_expires(pos[2][0]) \
                and dflt[0] == 'call' and dflt[1].split('::')[-1] == 'len' and over_expires(dflt[2][0])
            if good:
                cl = pos[2][1]
                good = False
                if isinstance(cl, tuple) and cl[0] == 'closure':
                    cs = Sym(ctx.body(cl[1]))
                    cs.run()
                    cc = cs.complete_paths()
                    if len(cc) == 1:
                        rel, a, b2, truth = literal((cc[0].ret, ('not', (0,)), -1))
                        good = rel == 'bool' and truth is False and isinstance(a, tuple) and a[0] == 'call' and a[1] == 'storage::ItemExpiration::is_expired' \
                            and is_param(root_of(strip_transparent(a[2][0]))) and root_of(strip_transparent(a[2][0]))[1] == 2 and 'curr_time' in fmt(a[2][1])
        elif good:
            pl = c05.pipeline(end)
            names = [x[0] for x in pl]
            # count(take_while(iter(expires), is_expired(curr_time)))
            good = end[0] == 'call' and end[1].endswith('::count') and find_calls(end, 'take_while') and any(isinstance(x, tuple) and x and x[0] == 'field' and x[2] == 'expires' for x in lib.term_walk(end))
            tw = find_calls(end, 'take_while')[0] if good else None
            r = closure_ret(ctx, res, tw[2][1]) if tw else None
            good = good and r is not None and r[0] == 'call' and r[1] == 'storage::ItemExpiration::is_expired' and 'curr_time' in fmt(r[2][1])
        okd = okd and bool(good)
        if p.end == 'loop':
            nloop += 1
            # each drained entry is removed from its per-hash list; an emptied list is dropped
            rt = [x for x in p.effects if x[0] == 'call' and x[1] and x[1].endswith('::retain')]
            gm = [x for x in p.effects if x[0] == 'call' and x[1] and x[1].endswith('::get_mut') and is_field_of_param(x[2][0], 'self', 'storage')]
            has_list = any(literal(c)[0] == 'variant' and literal(c)[1][0] == 'call' and literal(c)[1][1].endswith('::get_mut') and option_is_some(literal(c)[2]) for c in p.conds)
            if has_list:
                if len(rt) != 1:
                    okd = False
                else:
                    r = closure_ret(ctx, res, rt[0][2][1])
                    # keep what differs from the drained entry: `a.expiration() != entry` / `&a.expiration != entry`
                    good_r = False
                    if r is not None and r[0] == 'call' and lib.cmp_kind_of_call(r[1]) == 'ne':
                        x, y = strip_transparent(r[2][0]), strip_transparent(r[2][1])
                        for el, cap in ((x, y), (y, x)):
                            ec = find_calls(el, 'AnnounceItem::expiration')
                            base = strip_transparent(ec[0][2][0]) if ec else el
                            el_ok = (bool(ec) or field_chain(el)[-1:] == ['expiration']) and is_param(root_of(base)) and root_of(base)[1] == 2
                            cap_ok = is_param(root_of(cap)) and root_of(cap)[1] == 1
                            if el_ok and cap_ok:
                                good_r = True
                    if not good_r:
                        okd = False
                emp = [literal(c)[3] for c in p.conds if literal(c)[0] == 'bool' and literal(c)[1][0] == 'call' and literal(c)[1][1].endswith('::is_empty')]
                rem = [x for x in p.effects if x[0] == 'call' and x[1] and x[1].endswith('::remove') and is_field_of_param(x[2][0], 'self', 'storage')]
                if not emp or (emp[-1] is True) != bool(rem):
                    okd = False
    res.check(okd and nloop >= 2, 'TABLE', rb.path, 'expiry drains exactly the longest expired prefix of the queue and removes each drained pair from its list (dropping emptied lists)', site=rb.span)


def rule_who(ctx, res):
    """methods applied to the queue / map / lists; no writer outside storage.rs"""
    allowed = {
        'expires': {'push', 'retain', 'drain', 'len', 'deref', 'iter', 'into_iter', 'next', 'is_empty', 'first', 'get', 'as_slice', 'position',
                    'push_back', 'pop_front', 'front', 'back'},   # writers: push / retain / drain only
        'storage': {'get', 'get_mut', 'entry', 'remove', 'contains_key', 'len', 'is_empty'},
    }
    seen = {'expires': set(), 'storage': set()}
    for body in ctx.f.body_list:
        if body.kind == 'stolen' or not body.path.startswith('storage::AnnounceStorage::'):
            continue
        for i, t in body.calls():
            c = lib.callee(t)
            if c is None or not t['args']:
                continue
            a0 = t['args'][0]
            if a0['k'] not in ('copy', 'move'):
                continue
    # use Sym effects of all AnnounceStorage methods
    for body in ctx.f.body_list:
        if body.kind not in ('method', 'fn') or not body.path.startswith('storage::AnnounceStorage::'):
            continue
        res.touch(body)
        s = Sym(body)
        s.run()
        for p in s.paths:
            for e in p.effects:
                if e[0] == 'call' and e[1] and e[2]:
                    a0 = strip_transparent(e[2][0]) if e[2][0][0] in ('ref', 'deref') else e[2][0]
                    while isinstance(a0, tuple) and a0[0] in ('ref', 'deref'):
                        a0 = a0[1]
                    for f in ('expires', 'storage'):
                        if is_param(root_of(a0), 'self') and field_chain(a0) == [f] and not e[1].startswith('storage::'):
                            seen[f].add(e[1].split('::')[-1])
    for f in ('expires', 'storage'):
        res.check(seen[f] <= allowed[f] and seen[f], 'WHO', 'storage::AnnounceStorage.' + f, 'operations applied to `%s` are within %s' % (f, sorted(allowed[f])), detail=str(sorted(seen[f])), key='ops:' + f)
        ws = ctx.field_writes(r'^storage::AnnounceStorage$', f)
        res.check(not ws, 'WHO', 'storage::AnnounceStorage.' + f, 'never replaced wholesale', detail=str([x[0].path for x in ws]), key='assign:' + f)
        mb = [x for x in ctx.mut_borrows_of_field(r'^storage::AnnounceStorage$', f) if not x[0].path.startswith('storage::AnnounceStorage::')]
        res.check(not mb, 'WHO', 'storage::AnnounceStorage.' + f, 'mutably borrowed only inside storage.rs', detail=str([x[0].path for x in mb]), key='mutborrow:' + f)
    # the handler's store: add_item / find_items called only from the dispatcher
    for fn in (S + 'add_item', S + 'find_items'):
        sites = ctx.calls_to(fn)
        res.check(len(sites) == 1 and sites[0].body.path.startswith('handler::DhtHandler::handle_incoming'), 'WHO', fn, 'single call site, in the dispatcher', detail=str(sites))
    for fn in (S + 'add', S + 'find', S + 'insert_contact', S + 'remove_expired_items'):
        sites = ctx.calls_to(fn)
        res.check({x.body.path.split('::{')[0] for x in sites} <= {S + 'add_item', S + 'find_items', S + 'add', S + 'find'}, 'WHO', fn, 'internal helper: called only inside the store', detail=str(sites), key='internal')


def rule_handler_side(ctx, res):
    d = common.Dispatcher(ctx)
    res.touch(d.body)
    paths, _ = c05.arm_paths(ctx, d, 'AnnouncePeer', res)

    def classify(lit, c):
        rel, a, b2, truth = lit
        if rel == 'variant' and is_param(root_of(a), 'message') and field_chain(a)[-1:] == ['port']:
            return ('port', {'Some'} if option_is_some(b2) else {'None'})
        return None

    def outcome(p):
        outs = set()
        for e in p.effects:
            if e[0] == 'call' and e[1] == S + 'add_item':
                key = strip_transparent(e[2][1])
                kgood = is_param(root_of(key), 'message') and field_chain(key)[-1:] == ['info_hash']
                a = e[2][2]
                while isinstance(a, tuple) and a[0] in ('ref', 'deref'):
                    a = a[1]
                if is_param(a, 'addr'):
                    outs.add(('source', kgood))
                elif a[0] == 'mutated' and is_param(a[1], 'addr') and a[2].endswith('SocketAddr::set_port') and len(a[3]) == 1 \
                        and is_param(root_of(strip_transparent(a[3][0])), 'message') and field_chain(strip_transparent(a[3][0]))[-2:] == ['port', '0']:
                    outs.add(('source-with-announced-port', kgood))
                elif a[0] == 'call' and a[1] == 'std::net::SocketAddr::new' and strip_transparent(a[2][0])[0] == 'call' and strip_transparent(a[2][0])[1] == 'std::net::SocketAddr::ip' \
                        and is_param(strip_transparent(strip_transparent(a[2][0])[2][0]), 'addr') and is_param(root_of(strip_transparent(a[2][1])), 'message') \
                        and field_chain(strip_transparent(a[2][1]))[-2:] == ['port', '0']:
                    outs.add(('source-with-announced-port', kgood))
                else:
                    outs.add(('other:' + fmt(a)[:60], kgood))
        return tuple(sorted(outs))

    stored = [p for p in paths if any(e[0] == 'call' and e[1] == S + 'add_item' for e in p.effects)]
    tab = Table.build(stored, classify, outcome)
    bad, n = tab.compare({'port': ['Some', 'None']}, lambda v: ((('source', True),) if v['port'] == 'None' else (('source-with-announced-port', True),)))
    res.check(not bad and stored, 'TABLE', 'handle_incoming/AnnouncePeer', 'stored contact = datagram source (implied port) or source IP with the announced port; key = announced info-hash',
              detail='; '.join('%s -> got %s want %s' % x for x in bad[:3]))


def run(ctx, res):
    common.rule_no_addr_canonicalisation(ctx, res)
    common.rule_closed_world(ctx, res)
    rule_consts(ctx, res)
    rule_identity(ctx, res)
    rule_insert_table(ctx, res)
    rule_add_table(ctx, res)
    rule_find(ctx, res)
    rule_expiry(ctx, res)
    rule_who(ctx, res)
    rule_handler_side(ctx, res)
    d = common.Dispatcher(ctx)
    c05.rule_error_codes(ctx, res, d)
    # lookup key and family filter of get_peers are decided by the C05 field rules (values = find_items(query info_hash).filter(family))
    c05.rule_one_reply(ctx, lib.Filtered(res, r'^values'), d, exact_values=True)
