"""Analyses shared by several properties: the incoming-message dispatcher and its arms."""
from . import lib
from .lib import Lost, dominators, reach

HANDLE_INCOMING = 'handler::DhtHandler::handle_incoming'
REQUEST_VARIANTS = ('Ping', 'FindNode', 'GetPeers', 'AnnouncePeer')
BODY_VARIANTS = ('Request', 'Response', 'Error')


def enum_variants(ctx, adt_path):
    a = ctx.f.adts.get(adt_path)
    if a is None:
        raise Lost('enum %s' % adt_path)
    return {v['name']: v['discr'] for v in a['variants']}


def discr_switches(body, ty_rx):
    """switch terminators whose operand is the discriminant of a place of a type matching ty_rx:
    list of (block, place, {value: target}, otherwise)"""
    import re
    r = re.compile(ty_rx)
    out = []
    for i, blk in enumerate(body.blocks):
        if blk['cleanup']:
            continue
        t = blk['term']
        if t['k'] != 'switch' or t['discr']['k'] not in ('copy', 'move'):
            continue
        dl = t['discr']['place']
        if dl['p']:
            continue
        # find the defining discriminant() statement in the same block
        for s in reversed(blk['stmts']):
            if s['k'] == 'assign' and not s['place']['p'] and s['place']['l'] == dl['l']:
                rv = s['rv']
                if rv['k'] == 'discr' and r.search(rv['place']['ty']):
                    out.append((i, rv['place'], {v: b for v, b in t['arms']}, t['otherwise']))
                break
    return out


class Dispatcher:
    """the coroutine body of DhtHandler::handle_incoming, its MessageBody / Request switches and arms.

    Role query (used if the name is gone): the coroutine body that switches on the discriminant of a
    `message::MessageBody` *and* of a `message::Request` and calls `socket::Socket::send`."""

    def __init__(self, ctx):
        self.ctx = ctx
        body = ctx.f.coroutine_of(HANDLE_INCOMING)
        if body is None:
            cands = []
            for b in ctx.f.body_list:
                if b.kind != 'coroutine':
                    continue
                if discr_switches(b, r'^message::MessageBody$') and discr_switches(b, r'^message::Request$') and ctx.calls_in(b, 'socket::Socket::send'):
                    cands.append(b)
            if len(cands) != 1:
                raise Lost('dispatcher (handle_incoming) not found')
            body = cands[0]
        self.body = body
        mb = enum_variants(ctx, 'message::MessageBody')
        rq = enum_variants(ctx, 'message::Request')
        # the match: the MessageBody switch that has a distinct target per variant
        full = [s for s in discr_switches(body, r'^message::MessageBody$') if all(mb[v] in s[2] for v in BODY_VARIANTS)]
        if len(full) != 1:
            raise Lost('dispatcher: expected exactly one 3-way switch on MessageBody, found %d' % len(full))
        self.body_switch = full[0]
        rfull = [s for s in discr_switches(body, r'^message::Request$') if all(rq[v] in s[2] for v in REQUEST_VARIANTS)]
        if len(rfull) != 1:
            raise Lost('dispatcher: expected exactly one 4-way switch on Request, found %d' % len(rfull))
        self.req_switch = rfull[0]
        self.arms = {}
        for v in BODY_VARIANTS:
            self.arms[v] = self.body_switch[2][mb[v]]
        for v in REQUEST_VARIANTS:
            self.arms[v] = self.req_switch[2][rq[v]]
        self.message_place = self.body_switch[1]
        dom = dominators(body)
        self.dom = dom
        self._regions = {}

    def distinct_arms(self):
        t = [self.arms[v] for v in REQUEST_VARIANTS] + [self.arms['Response'], self.arms['Error']]
        return len(set(t)) == len(t) and self.dom.get(self.req_switch[0]) is not None and self.arms['Request'] in self.dom[self.req_switch[0]]

    def region(self, arm):
        """blocks dominated by the arm's entry block"""
        if arm not in self._regions:
            e = self.arms[arm]
            self._regions[arm] = {b for b, ds in self.dom.items() if e in ds}
        return self._regions[arm]

    def arm_of_block(self, b):
        for v in REQUEST_VARIANTS + ('Response', 'Error'):
            if b in self.region(v):
                return v
        return None

    def sends_in(self, arm):
        return [s for s in self.ctx.calls_in(self.body, 'socket::Socket::send') if s.block in self.region(arm)]


def table_calls(ctx, body, blocks=None):
    """call sites on routing-table / node mutators inside `body` (optionally restricted to blocks)"""
    out = []
    for s in ctx.calls_in(body, rx=r'^(table::RoutingTable::|node::Node::|bucket::Bucket::)'):
        if blocks is not None and s.block not in blocks:
            continue
        out.append(s)
    return out


def rule_timer_cancel(ctx, res):
    """Timer::cancel(t): whether t is the armed entry or waits in the queue, it is gone afterwards and the result says so.
    (The refresh chain and the search timeouts cancel through this: a cancel that silently fails leaves a second timer alive.)"""
    from .lib import Sym, Table, BOOL, Lost, literal, strip_transparent, find_calls, field_chain, is_param, root_of, option_is_some, term_int, agg_variant, fmt
    cands = [b for b in ctx.f.body_list if b.path.startswith('timer::Timer') and b.path.endswith('::cancel') and b.kind in ('fn', 'method')]
    if len(cands) != 1:
        raise Lost('Timer::cancel not found')
    b = cands[0]
    res.touch(b)
    s = Sym(b)
    s.run()
    res.paths += len(s.paths)

    def classify(lit, c):
        rel, a, b2, truth = lit
        if rel == 'variant' and field_chain(strip_transparent(a)) == ['current'] and is_param(root_of(strip_transparent(a)), 'self'):
            return ('armed', bool(option_is_some(b2)))
        if rel == 'bool' and isinstance(a, tuple) and a[0] == 'call' and a[1].split('::')[-1] in ('is_some', 'is_none') and field_chain(strip_transparent(a[2][0])) == ['current'] and truth is not None:
            return ('armed', (a[1].split('::')[-1] == 'is_some') == bool(truth))
        if rel == 'eq' and truth is not None:
            for x, y in ((a, b2), (b2, a)):
                if isinstance(x, tuple) and x[0] == 'call' and x[1].split('::')[-1] == 'key' and is_param(strip_transparent(y), 'timeout') \
                        and any(isinstance(z, tuple) and len(z) == 3 and z[0] == 'field' and z[2] == 'current' and is_param(root_of(z), 'self') for z in lib.term_walk(x[2][0])):
                    return ('is_it', bool(truth))
        if rel == 'bool' and term_int(a) is not None:
            return None
        if rel == 'bool' and isinstance(a, tuple) and a[0] == 'call' and a[1].split('::')[-1] in ('is_some', 'is_none') and truth is not None and took_current(a[2][0]):
            # `self.current.take_if(|c| c.key() == timeout).is_some()`: Some exactly when something is armed and it is t; the entry is
            # then already taken out (take_if leaves None behind), otherwise `current` is untouched
            return ('took', (a[1].split('::')[-1] == 'is_some') == bool(truth))
        raise Lost('Timer::cancel: unrecognised condition %s %s' % (rel, fmt(a)[:80]))

    def took_current(t):
        t = strip_transparent(t)
        if not (isinstance(t, tuple) and t[0] == 'call' and t[1].split('::')[-1] == 'take_if' and 'option' in t[1].lower() and len(t[2]) == 2
                and field_chain(strip_transparent(t[2][0])) == ['current'] and is_param(root_of(strip_transparent(t[2][0])), 'self')):
            return False
        cl = strip_transparent(t[2][1])
        if not (isinstance(cl, tuple) and len(cl) == 3 and cl[0] == 'closure' and ctx.f.body(cl[1]) is not None):
            return False
        _cb, cs = lib.closure_sym(ctx, cl, res)
        cps = cs.complete_paths()
        if len(cs.paths) != 1 or len(cps) != 1 or cps[0].conds or any(e[0] == 'write' for e in cps[0].effects):
            return False
        r = strip_transparent(cps[0].ret)
        if not (isinstance(r, tuple) and r[0] == 'call' and lib.cmp_kind_of_call(r[1]) == 'eq'):
            return False
        for x, y in ((r[2][0], r[2][1]), (r[2][1], r[2][0])):
            x, y = strip_transparent(x), strip_transparent(y)
            if isinstance(x, tuple) and x[0] == 'call' and x[1].split('::')[-1] == 'key' and is_param(root_of(strip_transparent(x[2][0]))) \
                    and root_of(strip_transparent(x[2][0]))[1] == 2 and is_param(y, 'timeout'):
                return True
        return False

    def outcome(p):
        cleared = any(e[0] == 'write' and field_chain(strip_transparent(e[1])) == ['current'] and agg_variant(e[2]) == 'None' for e in p.effects)
        for c in p.conds:
            lit = literal(c)
            try:
                if classify(lit, c) == ('took', True):
                    cleared = True
            except Lost:
                pass
        rem = [e for e in p.effects if e[0] == 'call' and e[1] and e[1].split('::')[-1] == 'remove' and field_chain(strip_transparent(e[2][0])) == ['queue'] and is_param(strip_transparent(e[2][1]), 'timeout')]
        r = p.ret
        if cleared and not rem and term_int(r) == 1:
            return 'armed entry dropped, true'
        if not cleared and len(rem) == 1 and isinstance(r, tuple) and r[0] == 'call' and r[1].split('::')[-1] == 'is_some' and find_calls(r, '::remove'):
            return 'removed from the queue, found?'
        return 'other: cleared=%s removes=%d ret=%s' % (cleared, len(rem), fmt(r)[:40])

    try:
        tab = Table.build(s.complete_paths(), classify, outcome)
        bad, n = tab.compare({'armed': BOOL, 'is_it': BOOL, 'took': BOOL}, lambda v: 'armed entry dropped, true' if (v['armed'] and v['is_it']) else 'removed from the queue, found?',
                             consistent=lambda v: (v['armed'] or not v['is_it']) and v['took'] == (v['armed'] and v['is_it']))
        res.check(not bad, 'TABLE', b.path, 'cancel(t): t armed -> the armed entry is dropped, true; otherwise (nothing armed, or something else armed) -> t is removed from the queue, result = whether it was there',
                  detail='; '.join('%s -> got %s want %s' % x for x in bad[:3]), key='timer-cancel')
    except Lost as e:
        res.bad('TABLE', b.path, 'cancel(t) drops the armed entry or removes t from the queue', detail=str(e), key='timer-cancel')


def rule_request_mark_sites(ctx, res):
    """Who may record "this node has queried us" (`Node::remote_request`, which alone makes a node that never answered count as
    good): only the four query arms of handle_incoming, for the sender of the query being answered.  A send path of this
    node's own queries (search rounds, refresh, bootstrap) records `local_request` instead; if it recorded a remote request,
    every node merely named by someone would turn good the moment it is pinged, answered or not."""
    import re
    sites = [x for x in ctx.calls_matching(r'^node::Node::remote_request$') if not ctx.is_derived(x.body.path)]
    res.sites += len(sites)
    fam = re.compile(r'^handler::DhtHandler::handle_incoming(::\{|$)')
    bad = [x for x in sites if not fam.match(x.body.path)]
    res.check(not bad and len(sites) >= 4, 'WHO', 'node::Node::remote_request', 'a node is marked as having queried us only in the query arms of handle_incoming (this node\'s own sends record local_request)',
              detail=str(bad[:4]) if bad else '%d sites' % len(sites), key='remote-request-callers')
    own = [x for x in ctx.calls_matching(r'^node::Node::local_request$') if not ctx.is_derived(x.body.path)]
    res.sites += len(own)
    bad2 = [x for x in own if fam.match(x.body.path)]
    res.check(not bad2 and len(own) >= 1, 'WHO', 'node::Node::local_request', 'a sent query is recorded on this node\'s send paths (search rounds, announce, refresh, bootstrap), never while answering someone else\'s query',
              detail=str(bad2[:4]) if bad2 else '%d sites' % len(own), key='local-request-callers')


def rule_no_addr_canonicalisation(ctx, res):
    """IP identity: an address is used as it arrived.  The library never folds one address into another
    (`to_canonical`, `to_ipv4`, `to_ipv4_mapped`, `to_ipv6_mapped`, `to_ipv6_compatible`): tokens are bound to the exact
    requester IP (C06), the store keys and the wire form keep the family given (C07 / C13), BEP42 ids are computed for the
    address as given (C20), replies go to the exact source (C05).  Zero-count rule; the seeded mutants are its positive examples."""
    sites = ctx.calls_matching(r'std::net::(IpAddr|Ipv4Addr|Ipv6Addr)::(to_canonical|to_ipv4|to_ipv4_mapped|to_ipv6_mapped|to_ipv6_compatible)$')
    sites = [x for x in sites if not ctx.is_derived(x.body.path)]
    res.check(not sites, 'WHO', 'std::net::*::to_canonical / to_ipv4* / to_ipv6*', 'no address is folded into another one anywhere in the library (an IPv4-mapped IPv6 address stays what it is)',
              detail=str(sites[:4]), key='no-addr-canonicalisation')


# ------------------------------------------------------------------------------------------------
# routing-table admission (shared by C08 and C12)

ADMIT_FNS = ('table::RoutingTable::add_node', 'table::RoutingTable::add_nodes', 'table::RoutingTable::bucket_node',
             'bucket::Bucket::add_node')


def rule_admission_filter(ctx, res):
    """RoutingTable::add_node: placement is reached only for non-router, non-bad, non-own-id nodes"""
    from .lib import Sym, literal, is_param, root_of, strip_transparent, agg_variant, term_int, field_chain, fmt
    fn = 'table::RoutingTable::add_node'
    b = ctx.body(fn)
    res.touch(b)
    s = Sym(b)
    s.run()
    res.paths += len(s.paths)
    max_buckets = ctx.f.const_value('table::MAX_BUCKETS')
    placing = 0
    ok = True
    why = []
    for p in s.paths:
        places = [e for e in p.effects if e[0] == 'call' and e[1] in ('table::RoutingTable::bucket_node', 'bucket::Bucket::add_node')]
        if not places:
            continue
        placing += 1
        router = bad = own = None
        for c in p.conds:
            rel, a, b2, truth = literal(c)
            if rel == 'bool' and a[0] == 'call' and a[1].endswith('::contains') and field_chain(strip_transparent(a[2][0])) == ['routers'] \
                    and lib.find_calls(a[2][1], 'Node::addr') and is_param(root_of(strip_transparent(lib.find_calls(a[2][1], 'Node::addr')[0][2][0])), 'node'):
                router = truth
            if rel == 'eq':
                for x, y in ((a, b2), (b2, a)):
                    if isinstance(x, tuple) and x[0] == 'call' and x[1] == 'node::Node::status' and agg_variant(y) == 'Bad':
                        bad = truth
                    if isinstance(x, tuple) and x[0] == 'call' and x[1] == 'table::leading_bit_count' and term_int(y) == max_buckets:
                        own = truth
            # `match bits { MAX_BUCKETS => .., n => .. }`: a switch on the value itself
            if rel == 'int' and isinstance(a, tuple) and a[0] == 'call' and a[1] == 'table::leading_bit_count':
                if isinstance(b2, tuple) and b2[0] == 'not':
                    if max_buckets in b2[1]:
                        own = False
                elif b2 == max_buckets:
                    own = True
            # `bits < MAX_BUCKETS` excludes the own id just as `bits != MAX_BUCKETS` does (at least as strict)
            if rel == 'lt' and truth is True and isinstance(a, tuple) and a[0] == 'call' and a[1] == 'table::leading_bit_count' and term_int(b2) == max_buckets:
                own = False
        if router is not False:
            ok = False
            why.append('placement reachable without routers.contains(node.addr()) == false')
        if bad is not False:
            ok = False
            why.append('placement reachable without status != Bad')
        if own is not False:
            ok = False
            why.append('placement reachable without shared-prefix != %s (own id)' % max_buckets)
        # the node placed is the offered node, unchanged
        for e in places:
            n = strip_transparent(e[2][1])
            if not is_param(n, 'node'):
                ok = False
                why.append('placed node is not the offered node: %s' % fmt(n))
    res.check(ok and placing >= 1, 'DOM', fn, 'placement is reached only behind: address not a router, status != Bad, id != own id (shared prefix != 160)',
              site=b.span, detail='; '.join(sorted(set(why))))
    res.check(max_buckets == 160, 'CONST', 'table::MAX_BUCKETS', 'MAX_BUCKETS == 160 (bits of an id)', detail=str(max_buckets))


def rule_who_admits(ctx, res, floors=True):
    """the only entries into the table's node storage"""
    from .lib import Lost
    sites = {f: ctx.calls_to(f) for f in ADMIT_FNS}
    callers = {f: sorted({s.body.path for s in v}) for f, v in sites.items()}
    for f, v in sites.items():
        res.sites += len(v)
    exp = {
        'table::RoutingTable::add_node': {'table::RoutingTable::add_nodes', 'table::RoutingTable::split_bucket'},
        'table::RoutingTable::bucket_node': {'table::RoutingTable::add_node', 'table::RoutingTable::bucket_node'},
        'bucket::Bucket::add_node': {'table::RoutingTable::bucket_node'},
        'table::RoutingTable::add_nodes': {'handler::DhtHandler::handle_incoming_response::{closure#0}', 'action::bootstrap::TableBootstrapInner::handle_message'},
    }
    floor = {'table::RoutingTable::add_node': 1, 'table::RoutingTable::bucket_node': 1, 'bucket::Bucket::add_node': 1, 'table::RoutingTable::add_nodes': 1}   # non-vacuity
    for f in ADMIT_FNS:
        got = set(callers[f])
        res.check(got <= exp[f] and len(sites[f]) >= floor[f], 'WHO', f, 'called only from %s (floor %d sites)' % (sorted(lib.short(x) for x in exp[f]), floor[f]),
                  detail='callers: %s (%d sites)' % (sorted(got), len(sites[f])), key='callers')
    return sites


# ------------------------------------------------------------------------------------------------
# closed world: what a dependent crate can name (effective visibility facts of rustc)

EXPORTED_MODS = {'', 'router', 'message', 'message::error_code'}
EXPORTED_ADTS = {'action::State', 'info_hash::InfoHash', 'info_hash::LengthError', 'mainline_dht::MainlineDht', 'mainline_dht::DhtBuilder',
                 'message::Message', 'message::MessageBody', 'message::Request', 'message::PingRequest', 'message::FindNodeRequest', 'message::GetPeersRequest',
                 'message::AnnouncePeerRequest', 'message::Want', 'message::Response', 'message::Error'}
EXPORTED_INHERENT = {'mainline_dht::MainlineDht::builder', 'mainline_dht::MainlineDht::get_state', 'mainline_dht::MainlineDht::bootstrapped', 'mainline_dht::MainlineDht::search',
                     'mainline_dht::MainlineDht::local_addr', 'mainline_dht::MainlineDht::load_contacts', 'mainline_dht::DhtBuilder::add_node', 'mainline_dht::DhtBuilder::add_router',
                     'mainline_dht::DhtBuilder::add_routers', 'mainline_dht::DhtBuilder::set_read_only', 'mainline_dht::DhtBuilder::set_announce_port', 'mainline_dht::DhtBuilder::set_node_id',
                     'mainline_dht::DhtBuilder::start', 'info_hash::InfoHash::from_ip', 'info_hash::InfoHash::sha1', 'message::Message::encode', 'message::Message::decode',
                     'SocketTrait::send_to', 'SocketTrait::recv_from', 'SocketTrait::local_addr'}


def rule_closed_world(ctx, res):
    """state-changing APIs cannot be named by a dependent crate: the who-may-call/construct/write rules
    quantify over all callers that can exist"""
    mods = {m['path'] for m in ctx.f.j['items']['mods'] if m['vis']['exported']}
    res.check(mods <= EXPORTED_MODS, 'TYPE', 'crate', 'only the modules router, message (and message::error_code) are exported', detail=str(sorted(mods - EXPORTED_MODS)), key='exported-mods')
    adts = {a['path'] for a in ctx.f.j['items']['adts'] if a['vis']['exported']}
    res.check(adts <= EXPORTED_ADTS, 'TYPE', 'crate', 'no state-holding type (table, bucket, node, store, token store, timer, search, handler, socket) is exported', detail=str(sorted(adts - EXPORTED_ADTS)), key='exported-adts')
    fns = {f['path'] for f in ctx.f.j['items']['fns'] if f['vis']['exported'] and f['parent_impl'] is not None and not f['path'].startswith('<') and '<impl ' not in f['path']} | \
          {f['path'] for f in ctx.f.j['items']['fns'] if f['vis']['exported'] and f['parent_impl'] is None}
    res.check(fns <= EXPORTED_INHERENT, 'TYPE', 'crate', 'the exported inherent API is MainlineDht / DhtBuilder / InfoHash::{from_ip, sha1} / Message::{encode, decode} / SocketTrait', detail=str(sorted(fns - EXPORTED_INHERENT)), key='exported-fns')
    unsafe = [f['path'] for f in ctx.f.j['items']['fns'] if f['safety'] != 'Safe']
    res.check(not unsafe, 'TYPE', 'crate', 'the crate declares no unsafe fn', detail=str(unsafe), key='no-unsafe-fn')
    # pub fields of exported builder / handle types would be a mutation surface
    pubf = []
    for a in ctx.f.j['items']['adts']:
        if a['path'] in ('mainline_dht::MainlineDht', 'mainline_dht::DhtBuilder') or (not a['vis']['exported'] and a['path'].split('::')[0] in ('table', 'bucket', 'node', 'storage', 'token', 'timer')):
            for v in a['variants']:
                for fl in v['fields']:
                    if fl['vis'] == 'pub' and a['vis']['exported']:
                        pubf.append(a['path'] + '.' + fl['name'])
    res.check(not pubf, 'TYPE', 'crate', 'MainlineDht and DhtBuilder expose no public field', detail=str(pubf), key='pub-fields')


def rule_find_node_identity(ctx, res):
    """find_node_mut hands out the table entry with the same id AND address (NodeHandle equality, derived
    over both fields), from the bucket of that id: a query can only mark the very node it claims to be"""
    from .lib import Sym, strip_transparent, find_calls, field_chain, is_param, root_of, fmt
    fn = 'table::RoutingTable::find_node_mut'
    b = ctx.body(fn)
    res.touch(b)
    s = Sym(b)
    s.run()
    ok = False
    for p in s.complete_paths():
        r = p.ret
        if r[0] == 'call' and r[1].endswith('Iterator::find') and find_calls(r, 'pingable_nodes_mut'):
            cl = r[2][1]
            if cl[0] == 'closure':
                cb = ctx.body(cl[1])
                cs = Sym(cb)
                cs.run()
                cps = cs.complete_paths()
                if len(cps) == 1 and cps[0].ret[0] == 'call' and lib.cmp_kind_of_call(cps[0].ret[1]) == 'eq':
                    x, y = strip_transparent(cps[0].ret[2][0]), strip_transparent(cps[0].ret[2][1])
                    sides = {('handle' if (t[0] == 'call' and t[1] == 'node::Node::handle') else 'param' if '_ref__node' in str(t) and not field_chain(t)[1:] else 'other') for t in (x, y)}
                    ok = sides == {'handle', 'param'}
            idx = find_calls(r, 'bucket_index_for_node')
            ok = ok and bool(idx) and field_chain(strip_transparent(idx[0][2][1])) == ['id'] and is_param(root_of(strip_transparent(idx[0][2][1])), 'node')
    res.check(ok, 'TABLE', fn, 'find_node_mut yields the live entry whose whole handle (id and address) equals the requested one, looked up in the bucket of that id', site=b.span)
    # "the bucket of that id": index = shared prefix length, or the last bucket while the table is not yet split that far
    ib = ctx.body('table::RoutingTable::bucket_index_for_node')
    res.touch(ib)
    isym = Sym(ib)
    isym.run()

    def is_lbc(t):
        t = strip_transparent(t)
        return isinstance(t, tuple) and t[0] == 'call' and t[1] == 'table::leading_bit_count' and is_param(root_of(strip_transparent(t[2][1])), 'node_id') \
            and field_chain(strip_transparent(t[2][0])) == ['node_id']

    def is_len(t):
        t = strip_transparent(t)
        return isinstance(t, tuple) and t[0] == 'call' and t[1].split('::')[-1] == 'len' and field_chain(strip_transparent(t[2][0])) == ['buckets']

    def is_last(t):
        t = strip_transparent(t)
        if isinstance(t, tuple) and t[0] == 'bin' and t[1].replace('WithOverflow', '') == 'Sub' and is_len(t[2]) and lib.term_int(t[3]) == 1:
            return True
        cs = find_calls(t, 'checked_sub') + find_calls(t, 'saturating_sub')
        return bool(cs) and is_len(cs[0][2][0]) and lib.term_int(strip_transparent(cs[0][2][1])) == 1 and not [x for x in find_calls(t, '') if False]
    oki = bool(isym.complete_paths())
    whyi = ''
    for p in isym.complete_paths():
        r = strip_transparent(p.ret)
        cmpc = [lib.literal(c) for c in p.conds if lib.literal(c)[0] == 'lt' and lib.literal(c)[3] is not None]
        other = [lib.literal(c) for c in p.conds if lib.literal(c) not in cmpc and not (lib.literal(c)[0] == 'variant' and find_calls(lib.literal(c)[1], 'checked_sub'))]
        if other:
            oki, whyi = False, 'decided by %s' % lib.fmt(other[0][1])[:80]
            continue
        if isinstance(r, tuple) and r[0] == 'call' and r[1] == 'table::bucket_placement' and is_lbc(r[2][0]) and is_len(r[2][1]) and not cmpc:
            continue
        if isinstance(r, tuple) and r[0] == 'call' and r[1].split('::')[-1] == 'min' and not cmpc and ((is_lbc(r[2][0]) and is_last(r[2][1])) or (is_lbc(r[2][1]) and is_last(r[2][0]))):
            continue
        inside = None
        for l in cmpc:
            if is_lbc(l[1]) and is_len(l[2]):
                inside = bool(l[3])              # lbc < len
            elif is_len(l[1]) and is_lbc(l[2]):
                inside = None                      # len < lbc: says nothing about lbc == len
        if inside is True and is_lbc(r):
            continue
        if inside is False and is_last(r):
            continue
        oki, whyi = False, 'returns %s under %s' % (lib.fmt(r)[:60], [lib.fmt(l[1])[:40] + ('<' if l[3] else '>=') + lib.fmt(l[2])[:30] for l in cmpc])
    res.check(oki, 'TABLE', ib.path, 'the bucket of an id is buckets[shared prefix length], or the last bucket while the table has not been split that far (same placement as insertion)', detail=whyi, key='bucket-of-id')
    adt = ctx.f.adts.get('node::NodeHandle')
    fields = [f['name'] for f in adt['variants'][0]['fields']] if adt else None
    derived = {im['trait'] for im in ctx.f.impls if im['self_ty'] == 'node::NodeHandle' and im['derived']}
    res.check(fields == ['id', 'addr'] and 'std::cmp::PartialEq' in derived, 'TYPE', 'node::NodeHandle', 'NodeHandle equality is derived over (id, addr)', detail='%s %s' % (fields, sorted(derived)))
    nb = ctx.body('<node::Node as std::cmp::PartialEq>::eq')
    ns = Sym(nb)
    ns.run()
    okn = all(p.ret[0] == 'call' and lib.cmp_kind_of_call(p.ret[1]) == 'eq' and {tuple(field_chain(strip_transparent(a))) for a in p.ret[2]} == {('handle',)} for p in ns.complete_paths()) and ns.complete_paths()
    res.check(okn, 'TABLE', nb.path, 'two nodes are the same entry iff their handles (id and address) are equal')


def rule_send_transmits(ctx, res):
    """SEND-TRANSMITS: `Socket::send(message, addr)` returning Ok means the encoded message was handed to the
    UDP socket for `addr`.  The rules that count `Socket::send` calls (one reply per query, announces, search
    queries) lean on this: a send that can return Ok without transmitting makes those counts meaningless."""
    from .lib import Sym, strip_transparent, find_calls, agg_variant, is_param, root_of, field_chain
    b = ctx.co('socket::Socket::send')
    res.touch(b)
    s = Sym(b)
    s.run()
    n = 0
    ok = True
    why = ''
    for p in s.complete_paths():
        if agg_variant(p.ret) != 'Ok':
            continue
        n += 1
        sends = [e for e in p.effects if e[0] == 'call' and e[1] and e[1].endswith('SocketTrait::send_to')]
        if len(sends) != 1:
            ok = False
            why = 'a path returns Ok(()) after %d send_to calls' % len(sends)
            continue
        a = [strip_transparent(x) for x in sends[0][2]]
        enc = find_calls(a[1], 'bencode::encode')
        good = (len(a) == 3 and field_chain(a[0])[-1:] == ['inner_socket'] and bool(enc) and is_param(root_of(strip_transparent(enc[0][2][0])), 'message')
                and is_param(root_of(a[2]), 'addr') and not field_chain(a[2]))
        # .. and the future was awaited and its result examined (`?`)
        awaited = any(lib.literal(c)[0] == 'variant' and find_calls(lib.literal(c)[1], 'SocketTrait::send_to') and lib.fmt(lib.literal(c)[1]).startswith('Try>::branch(await(') for c in p.conds)
        if not (good and awaited):
            ok = False
            why = 'send_to(%s) awaited=%s' % (', '.join(lib.fmt(x)[:50] for x in a), awaited)
    res.check(ok and n >= 1, 'MPT', b.path, 'Socket::send returns Ok only after awaiting send_to(encode(message), addr) on the UDP socket (no silent drop)', detail=why, key='send-transmits')
    # .. and it gives up only when encoding or the UDP send itself failed: no other refusal (a size check of its own, say,
    # would leave a well-formed query unanswered)
    okr = True
    whyr = ''
    for p in s.complete_paths():
        if agg_variant(p.ret) == 'Ok':
            continue
        r = p.ret
        src = None
        if r[0] == 'call' and r[1].endswith('from_residual'):
            src = [x for x in find_calls(r, 'bencode::encode') + find_calls(r, 'SocketTrait::send_to')]
        elif agg_variant(r) == 'Err':
            src = [x for x in find_calls(r, 'bencode::encode') + find_calls(r, 'SocketTrait::send_to')]
        # the error returned is the failure value of encode / send_to on this very path
        failed = [lib.literal(c) for c in p.conds if lib.literal(c)[0] == 'variant' and ((find_calls(lib.literal(c)[1], 'bencode::encode') and not find_calls(lib.literal(c)[1], 'SocketTrait::send_to') and lib.literal(c)[2] == 1)
                                                                                 or (lib.fmt(lib.literal(c)[1]).startswith('Try>::branch(await(') and find_calls(lib.literal(c)[1], 'SocketTrait::send_to') and lib.literal(c)[2] == 1))]
        if not src or not failed:
            okr = False
            whyr = 'an error exit that does not come from encode / send_to: %s' % lib.fmt(r)[:100]
    res.check(okr, 'MPT', b.path, 'Socket::send fails only by passing on an encode or send_to error (it refuses no message on its own)', detail=whyr, key='send-refuses-nothing')
    # the production transport forwards to tokio's UdpSocket
    ub = ctx.co('socket::<impl SocketTrait for tokio::net::UdpSocket>::send_to')
    res.touch(ub)
    us = Sym(ub)
    us.run()
    oku = False
    nu = 0
    for p in us.complete_paths():
        nu += 1
        c = find_calls(p.ret, 'tokio::net::UdpSocket::send_to') or [('call', e[1], e[2], e[3]) for e in p.effects if e[0] == 'call' and e[1] == 'tokio::net::UdpSocket::send_to']
        if c:
            a = [strip_transparent(x) for x in c[0][2]]
            oku = is_param(root_of(a[0]), 'self') and is_param(root_of(a[1]), 'buf') and is_param(root_of(a[2]), 'target')
        else:
            oku = False
            break
    res.check(oku and nu >= 1, 'FLOW', ub.path, 'the UDP transport passes buffer and target unchanged to tokio::net::UdpSocket::send_to', key='transport')
