"""Analyses shared by several properties: the incoming-message dispatcher and its arms."""
from . import lib
from .lib import Lost, dominators, reach

HANDLE_INCOMING = 'handler::DhtHandler::handle_incoming'
REQUEST_VARIANTS = ('Ping', 'FindNode', 'GetPeers', 'AnnouncePeer')
BODY_VARIANTS = ('Request', 'Response', 'Error')


def enum_variants(ctx, adt_path):
    a = ctx.f.adts.get(adt_path)
    if a is None:
        raise Lost('enum %s' % adt_path)
    return {v['name']: v['discr'] for v in a['variants']}


def discr_switches(body, ty_rx):
    """switch terminators whose operand is the discriminant of a place of a type matching ty_rx:
    list of (block, place, {value: target}, otherwise)"""
    import re
    r = re.compile(ty_rx)
    out = []
    for i, blk in enumerate(body.blocks):
        if blk['cleanup']:
            continue
        t = blk['term']
        if t['k'] != 'switch' or t['discr']['k'] not in ('copy', 'move'):
            continue
        dl = t['discr']['place']
        if dl['p']:
            continue
        # find the defining discriminant() statement in the same block
        for s in reversed(blk['stmts']):
            if s['k'] == 'assign' and not s['place']['p'] and s['place']['l'] == dl['l']:
                rv = s['rv']
                if rv['k'] == 'discr' and r.search(rv['place']['ty']):
                    out.append((i, rv['place'], {v: b for v, b in t['arms']}, t['otherwise']))
                break
    return out


class Dispatcher:
    """the coroutine body of DhtHandler::handle_incoming, its MessageBody / Request switches and arms.

    Role query (used if the name is gone): the coroutine body that switches on the discriminant of a
    `message::MessageBody` *and* of a `message::Request` and calls `socket::Socket::send`."""

    def __init__(self, ctx):
        self.ctx = ctx
        body = ctx.f.coroutine_of(HANDLE_INCOMING)
        if body is None:
            cands = []
            for b in ctx.f.body_list:
                if b.kind != 'coroutine':
                    continue
                if discr_switches(b, r'^message::MessageBody$') and discr_switches(b, r'^message::Request$') and ctx.calls_in(b, 'socket::Socket::send'):
                    cands.append(b)
            if len(cands) != 1:
                raise Lost('dispatcher (handle_incoming) not found')
            body = cands[0]
        self.body = body
        mb = enum_variants(ctx, 'message::MessageBody')
        rq = enum_variants(ctx, 'message::Request')
        # the match: the MessageBody switch that has a distinct target per variant
        full = [s for s in discr_switches(body, r'^message::MessageBody$') if all(mb[v] in s[2] for v in BODY_VARIANTS)]
        if len(full) != 1:
            raise Lost('dispatcher: expected exactly one 3-way switch on MessageBody, found %d' % len(full))
        self.body_switch = full[0]
        rfull = [s for s in discr_switches(body, r'^message::Request$') if all(rq[v] in s[2] for v in REQUEST_VARIANTS)]
        if len(rfull) != 1:
            raise Lost('dispatcher: expected exactly one 4-way switch on Request, found %d' % len(rfull))
        self.req_switch = rfull[0]
        self.arms = {}
        for v in BODY_VARIANTS:
            self.arms[v] = self.body_switch[2][mb[v]]
        for v in REQUEST_VARIANTS:
            self.arms[v] = self.req_switch[2][rq[v]]
        self.message_place = self.body_switch[1]
        dom = dominators(body)
        self.dom = dom
        self._regions = {}

    def distinct_arms(self):
        t = [self.arms[v] for v in REQUEST_VARIANTS] + [self.arms['Response'], self.arms['Error']]
        return len(set(t)) == len(t) and self.dom.get(self.req_switch[0]) is not None and self.arms['Request'] in self.dom[self.req_switch[0]]

    def region(self, arm):
        """blocks dominated by the arm's entry block"""
        if arm not in self._regions:
            e = self.arms[arm]
            self._regions[arm] = {b for b, ds in self.dom.items() if e in ds}
        return self._regions[arm]

    def arm_of_block(self, b):
        for v in REQUEST_VARIANTS + ('Response', 'Error'):
            if b in self.region(v):
                return v
        return None

    def sends_in(self, arm):
        return [s for s in self.ctx.calls_in(self.body, 'socket::Socket::send') if s.block in self.region(arm)]


def table_calls(ctx, body, blocks=None):
    """call sites on routing-table / node mutators inside `body` (optionally restricted to blocks)"""
    out = []
    for s in ctx.calls_in(body, rx=r'^(table::RoutingTable::|node::Node::|bucket::Bucket::)'):
        if blocks is not None and s.block not in blocks:
            continue
        out.append(s)
    return out
