"""C11 - over hours, responsive contacts are kept fresh and silent ones are purged (partial: liveness premises).

Decides: a refresh round re-arms itself on every path (6 s), is started on bootstrap completion and
continued by its own timer token, contacts questionable nodes not asked in the last 30 s around the
cursor target (at most 4) and marks each as queried (which drives the two-strike purge of C10), the
refresh-answer branch re-admits the responder as good, the cursor never leaves 0..160.
No timing bound of the statement (30 s, 20 min, 5 min) is decided."""
from . import refresh, c12, c10

EXPLANATION = __doc__
ASSUMPTIONS = ['the timing bounds compound cadence, cursor walk and network behaviour and are outside this check', 'C10 tables (status / update / local_request) are checked by C10 and re-checked here for the two rules the purge relies on']


def run(ctx, res):
    refresh.rule_rearm_always(ctx, res)
    refresh.rule_refresh_round(ctx, res)
    c12.rule_response_routing(ctx, res)     # refresh answers: add_nodes(as_good(responder), hearsay) behind the refresh guard
    c10.rule_status_table(ctx, res)
    c10.rule_update_table(ctx, res)
    c10.rule_event_methods(ctx, res)
