"""Crate-local call graph over factgen bodies: direct calls (declared and resolved callee), closures and
coroutines created in a body, fn items used as values, async fn -> coroutine body."""
from .facts import callee


def build(ctx):
    if getattr(ctx, '_cg', None) is not None:
        return ctx._cg
    paths = set(ctx.f.bodies.keys())
    g = {p: set() for p in paths}
    for b in ctx.f.body_list:
        if b.kind == 'stolen':
            continue
        out = g[b.path]
        for blk in b.blocks:
            if blk['cleanup']:
                continue
            for st in blk['stmts']:
                if st['k'] != 'assign':
                    continue
                rv = st['rv']
                if rv['k'] == 'agg' and rv['agg'] in ('closure', 'coroutine', 'coroutine_closure'):
                    if rv['def'] in paths:
                        out.add(rv['def'])
                for op in operands_of(rv):
                    if op.get('k') == 'const' and 'fn' in op:
                        for n in (op['fn'].get('resolved'), op['fn']['path']):
                            if n in paths:
                                out.add(n)
            t = blk['term']
            if t['k'] in ('call', 'tailcall'):
                c = callee(t)
                if c is not None:
                    for n in (c.get('resolved'), c['path'], c.get('self_closure'), c.get('self_fn')):
                        if n in paths:
                            out.add(n)
                for a in t['args']:
                    if a.get('k') == 'const' and 'fn' in a:
                        for n in (a['fn'].get('resolved'), a['fn']['path']):
                            if n in paths:
                                out.add(n)
    ctx._cg = g
    return g


def operands_of(rv):
    k = rv['k']
    if k in ('use', 'cast', 'repeat'):
        return [rv['op']]
    if k == 'bin':
        return [rv['a'], rv['b']]
    if k == 'un':
        return [rv['a']]
    if k == 'agg':
        return rv['ops']
    return []


def reachable(ctx, roots):
    g = build(ctx)
    seen = set()
    st = [r for r in roots if r in g]
    while st:
        x = st.pop()
        if x in seen:
            continue
        seen.add(x)
        st.extend(g[x] - seen)
    return seen


def sccs(ctx, nodes):
    """strongly connected components (with a cycle) of the call graph restricted to `nodes`"""
    g = build(ctx)
    index, low, onst, st, out = {}, {}, set(), [], []
    c = [0]
    import sys
    sys.setrecursionlimit(10000)

    def sc(v):
        index[v] = low[v] = c[0]
        c[0] += 1
        st.append(v)
        onst.add(v)
        for w in g[v]:
            if w not in nodes:
                continue
            if w not in index:
                sc(w)
                low[v] = min(low[v], low[w])
            elif w in onst:
                low[v] = min(low[v], index[w])
        if low[v] == index[v]:
            comp = set()
            while True:
                w = st.pop()
                onst.discard(w)
                comp.add(w)
                if w == v:
                    break
            if len(comp) > 1 or v in g[v]:
                out.append(comp)

    for v in sorted(nodes):
        if v not in index:
            sc(v)
    return out
