"""C08 - the routing table keeps its shape; a node is only traded for a strictly better one (structural + tables).

Decides: the admission filter dominates placement; capacity is fixed by the array type; the
placement / split tables; who may store into a bucket slot and who may obtain a mutable node; a
repeat offer updates in place before any replacement is considered; a slot is replaced only if its
status is strictly lower than the newcomer's; the victim search prefers a bad (unused) slot before
any live node is considered. "When room exists the node is admitted" under deep recursive splits
follows from these tables by argument (DESIGN.md) and is not itself checked."""
from . import lib, common
from .lib import (Sym, Table, BOOL, Lost, literal, term_int, strip_transparent, is_field_of_param, option_is_some,
                  agg_variant, field_chain, root_of, is_param, find_calls, fmt)
from .c10 import STATUS, status_values, status_atom

EXPLANATION = __doc__
ASSUMPTIONS = ['Iterator::position returns the first matching index; Option::or_else / or evaluate the fallback only on None',
               'derived PartialOrd on NodeStatus orders variants by declaration order (checked: Bad < Questionable < Good)']

ADD = 'bucket::Bucket::add_node'


def pred_kind(ctx, res, closure_term, with_captures=False):
    """classify a slot predicate closure: 'same' (== offered node), 'bad' (status == Bad), 'lower' (status < offered status)"""
    if not (isinstance(closure_term, tuple) and closure_term[0] == 'closure'):
        return 'unknown'
    b = ctx.body(closure_term[1])
    res.touch(b)
    if with_captures:
        # second attempt with the captured values substituted (a predicate closure handed to a search helper)
        b, s = lib.closure_sym(ctx, closure_term, res)
    else:
        s = Sym(b)
        s.run()
    cps = s.complete_paths()
    if len(cps) == 1:
        r = cps[0].ret
        if r[0] == 'call' and lib.cmp_kind_of_call(r[1]) == 'eq':
            x, y = strip_transparent(r[2][0]), strip_transparent(r[2][1])
            names = {fmt(x), fmt(y)}
            if any('new_node' in n and 'status' not in n for n in names) and any(is_param(t) and t[1] == 2 for t in (x, y)):
                return 'same'
    try:
        def classify(lit, c):
            st = status_atom(ctx, lit, lambda call: is_param(root_of(strip_transparent(call[2][0]))) and root_of(strip_transparent(call[2][0]))[1] == 2)
            if st is not None:
                return ('S', st)
            raise Lost('x')
        tab = lib.bool_table(cps, classify)
        bad, n = tab.compare({'S': list(STATUS)}, lambda v: v['S'] == 'Bad')
        if not bad:
            return 'bad'
    except Lost:
        pass
    if len(cps) == 1:
        lit = literal((cps[0].ret, ('not', (0,)), -1))
        rel, a, b2, truth = lit
        if rel == 'lt' and truth is True and a[0] == 'call' and a[1] == 'node::Node::status' and is_param(root_of(strip_transparent(a[2][0]))) \
                and root_of(strip_transparent(a[2][0]))[1] == 2 and 'new_node_status' in fmt(b2):
            # the captured value is the offered node's status (checked at the capture site by the caller)
            return 'lower'
        if rel == 'lt' and truth is True and a[0] == 'call' and a[1] == 'node::Node::status' and is_param(root_of(strip_transparent(a[2][0]))) \
                and root_of(strip_transparent(a[2][0]))[1] == 2 and root_of(strip_transparent(a[2][0]))[2] != 'new_node' and with_captures \
                and isinstance(b2, tuple) and b2[0] == 'call' and b2[1] == 'node::Node::status' and is_param(strip_transparent(b2[2][0]), 'new_node'):
            ctx.__dict__['_c08_direct'] = True      # compared with new_node.status() itself
            return 'lower'
    if not with_captures and closure_term[2]:
        k = pred_kind(ctx, res, closure_term, with_captures=True)
        if not k.startswith('unknown'):
            return k
    return 'unknown:' + (fmt(cps[0].ret)[:80] if cps else '?')


def search_spec(ctx, res, t, whole_only=False, loops=None):
    """priority list of slot predicates of an index expression built from position / or_else / or"""
    t = strip_transparent(t)
    if loops:
        nxt = loop_search_site(t)
        if nxt is not None:
            return [loops.get(nxt[3], 'unknown-loop')]
    if t[0] == 'field' and t[2] == '0' and t[1][0] == 'downcast':
        t = strip_transparent(t[1][1])
    if t[0] == 'call' and t[1].endswith('Try>::branch') and len(t[2]) == 1:
        t = strip_transparent(t[2][0])        # `search?`: Continue = found
    if t[0] == 'call' and t[1].split('::')[-1] in ('position', 'find'):
        it = t[2][0]
        while isinstance(it, tuple) and it[0] in ('ref', 'deref'):
            it = it[1]
        # the search must range over the whole slot array: iter() directly on `nodes`, no sub-slice, no adaptor
        whole = False
        if it[0] == 'call' and it[1].split('::')[-1] in ('iter', 'iter_mut'):
            src = it[2][0]
            while isinstance(src, tuple) and src[0] in ('ref', 'deref', 'cast'):
                src = src[1]
            whole = src[0] == 'field' and src[2] in ('nodes', '_ref__self__nodes') and not find_calls(it, '::index')
        if whole_only:
            return ['whole'] if whole else ['not-over-all-slots']
        return [pred_kind(ctx, res, t[2][1]) if whole else 'not-over-all-slots']
    if t[0] == 'call' and t[1].endswith('::or_else'):
        first = search_spec(ctx, res, t[2][0])
        cl = t[2][1]
        if cl[0] != 'closure':
            return first + ['unknown-fallback']
        b = ctx.body(cl[1])
        res.touch(b)
        s = Sym(b)
        s.run()
        cps = s.complete_paths()
        if len(cps) != 1:
            return first + ['unknown-fallback']
        return first + search_spec(ctx, res, cps[0].ret)
    if t[0] == 'call' and t[1].endswith('::or'):
        return search_spec(ctx, res, t[2][0]) + search_spec(ctx, res, t[2][1])
    return ['unknown:' + fmt(t)[:60]]


def loop_search_site(t):
    """`i` of `for (i, n) in self.nodes.iter().enumerate()`: returns the next() call of that loop, else None"""
    t = strip_transparent(t)
    if not (isinstance(t, tuple) and len(t) == 3 and t[0] == 'field' and t[2] == '0'):
        return None
    e = strip_transparent(t[1])
    if not (isinstance(e, tuple) and len(e) == 3 and e[0] == 'field' and e[2] == '0' and isinstance(e[1], tuple) and e[1][0] == 'downcast' and e[1][2] == 'Some'):
        return None
    nxt = strip_transparent(e[1][1])
    if not (isinstance(nxt, tuple) and nxt[0] == 'call' and nxt[1].split('::')[-1] == 'next'):
        return None
    it = strip_transparent(nxt[2][0])
    while isinstance(it, tuple) and it and it[0] in ('ref', 'deref'):
        it = strip_transparent(it[1])
    while isinstance(it, tuple) and it and it[0] == 'call' and it[1].split('::')[-1] == 'into_iter':
        it = strip_transparent(it[2][0])
    if not (isinstance(it, tuple) and it[0] == 'call' and it[1].split('::')[-1] == 'enumerate'):
        return None
    inner = it[2][0]
    if search_spec(None, None, ('call', 'x::position', (inner, None), None), whole_only=True) != ['whole']:
        return None
    return nxt


def loop_searches(ctx, sym):
    """explicit first-match loops over all slots: {next-call site: kind}.  The loop must do nothing but test one slot
    predicate per iteration, go on when it fails and leave the loop when it holds."""
    sym.loop_info()
    kinds = {}
    direct_status = False
    for p in sym.paths:
        for c in p.conds:
            lit = literal(c)
            if not (lit[0] == 'variant' and isinstance(lit[1], tuple) and lit[1][0] == 'call' and lit[1][1].split('::')[-1] == 'next' and option_is_some(lit[2]) is True):
                continue
            nxt = lit[1]
            elem_i = ('field', ('field', ('downcast', nxt, 'Some'), '0'), '0')
            if loop_search_site(elem_i) is None:
                continue
            site = nxt[3]
            comp = sym._loop_of_head.get(c[2]) or next((cm for h, cm in sym._loop_of_head.items() if c[2] in cm), None)
            if not comp:
                continue
            inloop = [x for x in p.conds if x[2] in comp and x is not c]
            kind = None
            holds = None
            if len(inloop) == 1:
                l2 = literal(inloop[0])
                st = status_atom(ctx, l2, lambda call: 'as Some).0.1' in fmt(call[2][0]) and nxt in list(lib.term_walk(call)))
                if st is not None:
                    if st == {'Bad'}:
                        kind, holds = 'bad', True
                    elif st == set(STATUS) - {'Bad'}:
                        kind, holds = 'bad', False
                elif l2[0] == 'lt' and isinstance(l2[1], tuple) and l2[1][0] == 'call' and l2[1][1] == 'node::Node::status' and nxt in list(lib.term_walk(l2[1])) \
                        and isinstance(l2[2], tuple) and l2[2][0] == 'call' and l2[2][1] == 'node::Node::status' and is_param(strip_transparent(l2[2][2][0]), 'new_node') and l2[3] is not None:
                    kind, holds = 'lower', bool(l2[3])
                    direct_status = True
            if kind is None:
                kinds[site] = 'unknown-loop'
                continue
            in_loop_effects = [e for e in p.effects if e[0] == 'write' or (e[0] == 'call' and e[3] in comp and e[1] and e[1].split('::')[-1] not in ('status', 'next', 'iter', 'enumerate', 'into_iter', 'eq', 'ne', 'lt', 'gt', 'le', 'ge', 'clone'))]
            if holds is False:
                ok = p.end == 'loop' and not [e for e in in_loop_effects if e[0] == 'call'] and not [e for e in p.effects if e[0] == 'write']
            else:
                ok = p.end != 'loop'
            if not ok or kinds.get(site, kind) != kind:
                kinds[site] = 'unknown-loop'
            else:
                kinds.setdefault(site, kind)
    return kinds, direct_status


def rule_bucket_add(ctx, res):
    b = ctx.body(ADD)
    res.touch(b)
    s = Sym(b)
    s.run()
    res.paths += len(s.paths)
    loops, direct_status = loop_searches(ctx, s)
    d = status_values(ctx)
    derived = {im['trait'] for im in ctx.f.impls if im['self_ty'] == 'node::NodeStatus' and im['derived']}
    res.check(d['Bad'] < d['Questionable'] < d['Good'] and 'std::cmp::PartialOrd' in derived, 'TYPE', 'node::NodeStatus', 'status order Bad < Questionable < Good (derived PartialOrd, declaration order)', detail=str(d))
    stores = []
    updates = []
    ok_bad = False
    for p in s.complete_paths():
        bad_new = None
        none_searches = []
        some_same = False
        for c in p.conds:
            lit = literal(c)
            st = status_atom(ctx, lit, lambda call: is_param(strip_transparent(call[2][0]), 'new_node'))
            if st is not None:
                bad_new = (st == {'Bad'})
                continue
            rel, a, b2, truth = lit
            if rel == 'variant' and a[0] == 'call' and a[1].split('::')[-1] == 'next' and a[3] in loops:
                if option_is_some(b2) is False:
                    none_searches.append(loops[a[3]])
            elif rel == 'variant' and a[0] == 'call' and a[1].endswith('Try>::branch'):
                # `search?` : Break (1) = nothing found
                spec = search_spec(ctx, res, a)
                if b2 == 1:
                    none_searches.extend(spec)
            elif rel == 'variant' and a[0] == 'call':
                spec = search_spec(ctx, res, a)
                if option_is_some(b2) is False:
                    none_searches.extend(spec)
                elif spec == ['same']:
                    some_same = True
            elif rel == 'bool' and a[0] == 'call' and a[1].split('::')[-1] in ('is_some', 'is_none') and truth is not None:
                # `search.is_some()` / `.is_none()` instead of a match on the search result
                inner = strip_transparent(a[2][0])
                if isinstance(inner, tuple) and inner[0] == 'call':
                    spec = search_spec(ctx, res, inner)
                    found = (a[1].split('::')[-1] == 'is_some') == bool(truth)
                    if not found:
                        none_searches.extend(spec)
                    elif spec == ['same']:
                        some_same = True
        ws = [e for e in p.effects if e[0] == 'write']
        ups = [e for e in p.effects if e[0] == 'call' and e[1] == 'node::Node::update']
        if bad_new:
            ok_bad = (not ws and not ups and term_int(p.ret) == 1)
            continue
        for e in ws:
            stores.append((p, e, none_searches))
        for e in ups:
            updates.append((p, e, some_same))
    res.check(ok_bad, 'TABLE', ADD, 'a bad newcomer is never stored (the call reports success and writes nothing)', site=b.span)
    ok_up = bool(updates)
    for p, e, some_same in updates:
        tgt = strip_transparent(e[2][0])
        arg = strip_transparent(e[2][1])
        idx = tgt[2] if tgt[0] == 'index' else None
        by_index = idx is not None and search_spec(ctx, res, idx) == ['same'] and field_chain(tgt[1]) == ['nodes']
        # .. or the entry handed out by `nodes.iter_mut().find(same node)` itself
        found = tgt
        while isinstance(found, tuple) and found and found[0] in ('ref', 'deref'):
            found = strip_transparent(found[1])
        by_find = (isinstance(found, tuple) and found[0] == 'field' and found[2] == '0' and isinstance(found[1], tuple) and found[1][0] == 'downcast'
                   and isinstance(strip_transparent(found[1][1]), tuple) and strip_transparent(found[1][1])[0] == 'call' and strip_transparent(found[1][1])[1].split('::')[-1] == 'find'
                   and search_spec(ctx, res, found) == ['same'])
        if not (some_same and (by_index or by_find) and is_param(arg, 'new_node')):
            ok_up = False
        if [x for x in p.effects if x[0] == 'write']:
            ok_up = False
    res.check(ok_up, 'DOM', ADD, 'a node already present (same id and address) is updated in place through Node::update and nothing else is written', site=b.span, key='update-in-place')
    ok_st = bool(stores)
    why = ''
    for p, e, none_searches in stores:
        place, val = e[1], e[2]
        if not (place[0] == 'index' and field_chain(place[1]) == ['nodes'] and is_param(root_of(place[1]), 'self') and is_param(strip_transparent(val), 'new_node')):
            ok_st = False
            why = 'store is not nodes[i] = new_node'
            continue
        spec = search_spec(ctx, res, place[2], loops=loops)
        if 'same' not in none_searches:
            ok_st = False
            why = 'replacement reachable without the same-node search having failed (duplicates possible)'
        order = [x for x in none_searches if x != 'same'] + spec
        if any(x not in ('bad', 'lower') for x in order):
            ok_st = False
            why = 'victim predicate is not one of {status == Bad, status < offered status}: %s' % order
        elif order[0] != 'bad':
            ok_st = False
            why = 'victim search does not look for a bad (unused) slot first: %s' % order
    res.check(ok_st, 'TABLE', ADD, 'replacement: only after the same-node search failed; victim = first bad slot, else first slot with strictly lower status; equal or better is never replaced',
              site=b.span, detail=why, key='victim')
    # the captured comparison value of 'lower' is the offered node's status
    okc = True
    for body in ctx.f.body_list:
        if body.path.startswith(ADD + '::{closure') and body.kind == 'closure':
            pass
    caps_ok = direct_status or bool(ctx.__dict__.get('_c08_direct'))
    for p in s.paths:
        for e in p.effects:
            if e[0] == 'call' and e[1] and (e[1].endswith('::or_else') or e[1].endswith('::position')):
                for x in lib.term_walk(e):
                    if isinstance(x, tuple) and x and x[0] == 'closure':
                        for cap in x[2]:
                            c = strip_transparent(cap)
                            if c[0] == 'call' and c[1] == 'node::Node::status' and is_param(strip_transparent(c[2][0]), 'new_node'):
                                caps_ok = True
    res.check(caps_ok, 'FLOW', ADD, 'the status the victim search compares against is new_node.status()')


def rule_shape(ctx, res):
    adt = ctx.f.adts.get('bucket::Bucket')
    fty = adt['variants'][0]['fields'][0].get('ty_norm') if adt else None
    k = ctx.f.const_value('bucket::MAX_BUCKET_SIZE')
    res.check(fty == '[node::Node; 8]' and k == 8, 'TYPE', 'bucket::Bucket.nodes', 'a bucket is an array of exactly 8 nodes (MAX_BUCKET_SIZE = 8)', detail='%s %s' % (fty, k))
    res.check(ctx.f.const_value('table::MAX_BUCKETS') == 160, 'CONST', 'table::MAX_BUCKETS', 'MAX_BUCKETS == 160')
    # bucket_placement
    b = ctx.body('table::bucket_placement')
    res.touch(b)
    s = Sym(b)
    s.run()

    def classify(lit, c):
        rel, a, b2, truth = lit
        if rel == 'lt' and is_param(a, 'num_same_bits') and is_param(b2, 'num_buckets'):
            return ('ideal_lt_n', truth)
        raise Lost('bucket_placement: unrecognised condition')

    def outcome(p):
        r = strip_transparent(p.ret)
        if is_param(r, 'num_same_bits'):
            return 'ideal'
        if r[0] == 'bin' and r[1] == 'Sub' and is_param(r[2], 'num_buckets') and term_int(r[3]) == 1:
            return 'last'
        return fmt(r)

    # `min(shared prefix, n - 1)` is the same function written without a branch
    cps0 = s.complete_paths()
    as_min = False
    if len(cps0) == 1 and not cps0[0].conds:
        r0 = strip_transparent(cps0[0].ret)
        if r0[0] == 'call' and r0[1].split('::')[-1] == 'min' and len(r0[2]) == 2:
            x, y = strip_transparent(r0[2][0]), strip_transparent(r0[2][1])
            for u, v in ((x, y), (y, x)):
                if is_param(u, 'num_same_bits') and v[0] == 'bin' and v[1] == 'Sub' and is_param(strip_transparent(v[2]), 'num_buckets') and term_int(v[3]) == 1:
                    as_min = True
    if as_min:
        res.ok('TABLE', b.path, 'placement: shared-prefix length if that bucket exists, else the last bucket')
    else:
        tab = Table.build(cps0, classify, outcome)
        bad, n = tab.compare({'ideal_lt_n': BOOL}, lambda v: 'ideal' if v['ideal_lt_n'] else 'last')
        res.check(not bad, 'TABLE', b.path, 'placement: shared-prefix length if that bucket exists, else the last bucket', detail=str(bad[:2]))
    # can_split_bucket <=> index == n-1 && index != MAX_BUCKETS-1
    b = ctx.body('table::can_split_bucket')
    res.touch(b)
    s = Sym(b)
    s.run()

    def classify2(lit, c):
        rel, a, b2, truth = lit
        if rel == 'eq':
            for x, y in ((a, b2), (b2, a)):
                if is_param(x, 'bucket_index') and y[0] == 'bin' and y[1] == 'Sub' and is_param(y[2], 'num_buckets') and term_int(y[3]) == 1:
                    return ('is_last', truth)
                if is_param(x, 'bucket_index') and term_int(y) == 159:
                    return ('is_159', truth)
        raise Lost('can_split_bucket: unrecognised condition %s' % fmt(a))

    tab = lib.bool_table(s.complete_paths(), classify2)
    bad, n = tab.compare({'is_last': BOOL, 'is_159': BOOL}, lambda v: v['is_last'] and not v['is_159'])
    res.check(not bad, 'TABLE', b.path, 'only the last bucket (the one covering the local id) is split, and never beyond 160 buckets', detail=str(bad[:2]))
    # bucket_node: placement index, split on failure, retry
    b = ctx.body('table::RoutingTable::bucket_node')
    res.touch(b)
    s = Sym(b)
    s.run()
    ok = bool(s.complete_paths())
    for p in s.complete_paths():
        adds = [e for e in p.effects if e[0] == 'call' and e[1] == ADD]
        if len(adds) != 1:
            ok = False
            continue
        tgt = strip_transparent(adds[0][2][0])
        im = find_calls(tgt, 'index_mut') or find_calls(tgt, '::get_mut')
        okidx = bool(im) and field_chain(strip_transparent(im[0][2][0])) == ['buckets']
        if okidx:
            ix = strip_transparent(im[0][2][1])
            okidx = ix[0] == 'call' and ix[1] == 'table::bucket_placement' and is_param(strip_transparent(ix[2][0]), 'num_same_bits') and \
                strip_transparent(ix[2][1])[0] == 'call' and strip_transparent(ix[2][1])[1].endswith('::len') and field_chain(strip_transparent(strip_transparent(ix[2][1])[2][0])) == ['buckets']
        if not okidx or not is_param(strip_transparent(adds[0][2][1]), 'node'):
            ok = False
        added = [literal(c)[3] for c in p.conds if literal(c)[0] == 'bool' and literal(c)[1][0] == 'call' and literal(c)[1][1] == ADD]
        split = [literal(c)[3] for c in p.conds if literal(c)[0] == 'bool' and literal(c)[1][0] == 'call' and literal(c)[1][1] == 'table::RoutingTable::split_bucket']
        retry = [e for e in p.effects if e[0] == 'call' and e[1] == 'table::RoutingTable::bucket_node']
        if added == [True] and (split or retry):
            ok = False
        if added == [False] and (not split or (split[-1] is True) != bool(retry)):
            ok = False
        if retry and not (is_param(strip_transparent(retry[0][2][1]), 'node') and is_param(strip_transparent(retry[0][2][2]), 'num_same_bits')):
            ok = False
    res.check(ok, 'TABLE', b.path, 'the node is offered to buckets[placement(shared prefix, len)]; if the bucket is full the bucket is split and the same node is offered again', site=b.span)
    # split_bucket
    b = ctx.body('table::RoutingTable::split_bucket')
    res.touch(b)
    s = Sym(b)
    s.run()
    ok = True
    seen_loop = False
    for p in s.paths:
        can = [literal(c)[3] for c in p.conds if literal(c)[0] == 'bool' and literal(c)[1][0] == 'call' and literal(c)[1][1] == 'table::can_split_bucket']
        pops = [e for e in p.effects if e[0] == 'call' and e[1] and e[1].endswith('Vec::<T, A>::pop')]
        pushes = [e for e in p.effects if e[0] == 'call' and e[1] and e[1].endswith('Vec::<T, A>::push') and field_chain(strip_transparent(e[2][0])) == ['buckets']]
        if can == [False]:
            if pops or pushes or term_int(p.ret) != 0:
                ok = False
            continue
        if p.end == 'diverge':
            continue
        # two fresh buckets appended: two `push(Bucket::new())` or one `extend([Bucket::new(), Bucket::new()])`
        exts = [e for e in p.effects if e[0] == 'call' and e[1] and e[1].split('::')[-1] == 'extend' and field_chain(strip_transparent(e[2][0])) == ['buckets']]
        two_new = len(pushes) == 2 and not exts and all(strip_transparent(x[2][1])[1] == 'bucket::Bucket::new' for x in pushes)
        if not two_new and len(exts) == 1 and not pushes:
            arr = strip_transparent(exts[0][2][1])
            two_new = isinstance(arr, tuple) and arr[0] == 'array' and len(arr[1]) == 2 and all(strip_transparent(x)[0] == 'call' and strip_transparent(x)[1] == 'bucket::Bucket::new' for x in arr[1])
        if len(pops) != 1 or not two_new:
            ok = False
        if p.end == 'loop':
            seen_loop = True
            re = [e for e in p.effects if e[0] == 'call' and e[1] == 'table::RoutingTable::add_node']
            if len(re) != 1 or not find_calls(re[0][2][1], '::next') or not find_calls(re[0][2][1], '::pop'):
                ok = False
            else:
                from .c05 import pipeline
                it = find_calls(re[0][2][1], '::next')[0][2][0]
                while isinstance(it, tuple) and it[0] in ('ref', 'deref'):
                    it = it[1]
                pl = pipeline(it)
                src = pl[0][1]
                # the whole popped bucket, no adaptor that could skip a node
                if any(x[0] not in ('iter', 'into_iter', 'cloned', 'copied') for x in pl[1:]) or not find_calls(src, '::pop'):
                    ok = False
        if p.end == 'return' and term_int(p.ret) != 1:
            ok = False
    res.check(ok and seen_loop, 'TABLE', b.path, 'split: pop the last bucket, push two empty buckets, re-offer every node of the popped bucket through add_node', site=b.span)


def rule_who_mutates(ctx, res):
    # stores into Bucket.nodes[i]
    stores = set()
    for body in ctx.f.body_list:
        if body.kind == 'stolen':
            continue
        for i, blk in enumerate(body.blocks):
            if blk['cleanup']:
                continue
            for st in blk['stmts']:
                if st['k'] != 'assign':
                    continue
                pl = st['place']
                for j, e in enumerate(pl['p']):
                    if isinstance(e, dict) and e.get('n') == 'nodes' and e.get('bt') == 'bucket::Bucket' and j < len(pl['p']) - 1:
                        stores.add(body.path)
    res.check(stores <= {ADD}, 'WHO', 'bucket::Bucket.nodes[_]', 'bucket slots are overwritten only in Bucket::add_node', detail=str(sorted(stores)))
    ws = ctx.field_writes(r'^bucket::Bucket$', 'nodes')
    res.check(not ws, 'WHO', 'bucket::Bucket.nodes', 'the slot array is never replaced wholesale (only built by Bucket::new)', detail=str([x[0].path for x in ws]))
    mb = ctx.mut_borrows_of_field(r'^bucket::Bucket$', 'nodes')
    holders = sorted({b.path for b, _, _ in mb})
    res.check(set(holders) <= {ADD, 'bucket::Bucket::pingable_nodes_mut'}, 'WHO', 'bucket::Bucket.nodes', 'mutable access to the slots only in add_node and pingable_nodes_mut', detail=str(holders))
    sites = ctx.calls_to('bucket::Bucket::pingable_nodes_mut')
    res.check({x.body.path for x in sites} <= {'table::RoutingTable::find_node_mut'}, 'WHO', 'bucket::Bucket::pingable_nodes_mut', 'called only by find_node_mut', detail=str(sites))
    # &mut Node obtained from find_node_mut flows only into local_request / remote_request
    fsites = ctx.calls_to('table::RoutingTable::find_node_mut')
    res.sites += len(fsites)
    res.check(len(fsites) >= 1, 'WHO', 'table::RoutingTable::find_node_mut', 'call sites found (non-vacuity)', detail=str(len(fsites)))
    users = set()
    for body in {x.body.path: x.body for x in fsites}.values():
        res.touch(body)
        s = Sym(body, max_paths=200000)
        s.run(env=lib.coroutine_param_env(body) if body.kind == 'coroutine' else None)
        for p in s.paths:
            for e in p.effects:
                if e[0] == 'call' and e[1] and e[1] != 'table::RoutingTable::find_node_mut':
                    if any(find_calls(a, 'find_node_mut') for a in e[2]):
                        users.add(e[1])
    allowed = {'node::Node::local_request', 'node::Node::remote_request'}
    res.check(users <= allowed and users, 'FLOW', 'table::RoutingTable::find_node_mut', 'a mutable node handed out by the table is only passed to local_request / remote_request (which never change id or address, see C10 write-sets)',
              detail=str(sorted(users)))
    # buckets vector: pop/push only in split_bucket
    ops = {}
    for x in ctx.calls_matching(r'Vec::<T, A>::(push|pop|remove|insert|clear|truncate|swap_remove|drain|retain)$'):
        if x.body.path.startswith('table::'):
            ops.setdefault(x.body.path, set()).add(x.callee.split('::')[-1])
    res.check(set(ops) <= {'table::RoutingTable::split_bucket'}, 'WHO', 'table::RoutingTable.buckets', 'the bucket list changes length only in split_bucket', detail=str(ops))
    ws = ctx.field_writes(r'^table::RoutingTable$', 'buckets')
    res.check(not ws, 'WHO', 'table::RoutingTable.buckets', 'the bucket list is never replaced wholesale', detail=str([x[0].path for x in ws]), key='buckets-assign')
    ws = ctx.field_writes(r'^table::RoutingTable$', 'node_id')
    res.check(not ws, 'WHO', 'table::RoutingTable.node_id', 'the local id of the table never changes', detail=str([x[0].path for x in ws]))


def run(ctx, res):
    common.rule_closed_world(ctx, res)
    common.rule_who_admits(ctx, res)
    common.rule_admission_filter(ctx, res)
    rule_shape(ctx, res)
    rule_bucket_add(ctx, res)
    rule_who_mutates(ctx, res)
    common.rule_find_node_identity(ctx, res)
    # "update in place on repeat": what a repeat offer does to the resident entry (node.rs:80-111) - a bad resident offered
    # again must become usable again, a better resident is never degraded
    from . import c10
    c10.rule_update_table(ctx, res)
