"""C19 - transaction ids: 8 bytes, never reused while live or shared between activities (partial).

Decides: 8 = 5 + 3 by type and constants; the non-test block lengths (2048) divide the id spaces so
the wrap test `== MAX` is hit exactly; writer and reader of the action prefix use the same shift and
byte order; generators are neither Clone nor Copy, message-id generators are created only by the
single action-id generator, which is created once; the wrap / block-allocation decision tables;
every query's transaction id comes from the constructing activity's own generator; the shared id of
the first bootstrap round goes to distinct addresses (C15 DEDUP). Non-repetition inside the 2^24
window (block allocator over long histories) is NOT decided."""
from . import lib, common, c15
from .lib import (Sym, Table, BOOL, Lost, literal, term_int, strip_transparent, is_field_of_param, option_is_some,
                  agg_variant, field_chain, root_of, is_param, find_calls, fmt)
from .c05 import message_of_send, body_of_message

EXPLANATION = __doc__
ASSUMPTIONS = ['SliceRandom::shuffle permutes its slice', 'the analysis compiles the library without cfg(test): the production block length 2048 is what is checked',
               'non-repetition within 2^24 draws is outside this check']

T = 'transaction::'


def rule_consts(ctx, res):
    c = {n: ctx.f.const_value(T + n) for n in ('TRANSACTION_ID_BYTES', 'ACTION_ID_BYTES', 'MESSAGE_ID_BYTES', 'ACTION_ID_SHIFT', 'MAX_ACTION_ID', 'MESSAGE_ID_SHIFT',
                                               'MAX_MESSAGE_ID', 'ACTION_ID_PREALLOC_LEN', 'MESSAGE_ID_PREALLOC_LEN')}
    res.check(c['ACTION_ID_BYTES'] == 5 and c['MESSAGE_ID_BYTES'] == 3 and c['TRANSACTION_ID_BYTES'] == 8, 'CONST', T + '*_BYTES', '8 = 5 (activity prefix) + 3 (message id)', detail=str(c))
    res.check(c['ACTION_ID_SHIFT'] == 40 and c['MAX_ACTION_ID'] == 1 << 40 and c['MESSAGE_ID_SHIFT'] == 24 and c['MAX_MESSAGE_ID'] == 1 << 24, 'CONST', T + 'MAX_*', 'id spaces are 2^40 action ids and 2^24 message ids', detail=str(c))
    ok = c['ACTION_ID_PREALLOC_LEN'] and c['MESSAGE_ID_PREALLOC_LEN'] and c['MAX_ACTION_ID'] % c['ACTION_ID_PREALLOC_LEN'] == 0 and c['MAX_MESSAGE_ID'] % c['MESSAGE_ID_PREALLOC_LEN'] == 0
    res.check(bool(ok) and c['MESSAGE_ID_PREALLOC_LEN'] == 2048 and c['ACTION_ID_PREALLOC_LEN'] == 2048, 'CONST', T + '*_PREALLOC_LEN',
              'production block lengths (2048) divide the id spaces, so `next_alloc == MAX` is reached exactly and message ids never spill into the action prefix', detail=str(c))
    test_cfg = [x for x in ctx.f.meta['cfg'] if x == 'test']
    res.check(not test_cfg, 'CONST', 'cfg', 'facts were extracted from the non-test configuration', detail=str(test_cfg))
    for adt, field, want in (('transaction::TransactionID', 'bytes', '[u8; 8]'), ('transaction::AIDGenerator', 'action_ids', '[u64; 2048]'), ('transaction::MIDGenerator', 'message_ids', '[u64; 2048]')):
        a = ctx.f.adts.get(adt)
        ty = [f.get('ty_norm') for f in a['variants'][0]['fields'] if f['name'] == field] if a else None
        res.check(ty == [want], 'TYPE', adt + '.' + field, 'type is %s' % want, detail=str(ty))


def rule_not_clonable(ctx, res):
    for ty in ('transaction::AIDGenerator', 'transaction::MIDGenerator'):
        impls = [im['trait'] for im in ctx.f.impls if im['self_ty'] == ty and im['trait'] in ('std::clone::Clone', 'std::marker::Copy')]
        res.check(not impls, 'TYPE', ty, 'implements neither Clone nor Copy: an activity owns its generator by move', detail=str(impls))
    m = ctx.f.fns.get(T + 'MIDGenerator::new')
    res.check(m is not None and m['vis']['nominal'].startswith('in transaction'), 'TYPE', T + 'MIDGenerator::new', 'MIDGenerator::new is private to the transaction module', detail=str(m and m['vis']))
    sites = ctx.calls_to(T + 'MIDGenerator::new')
    res.check({x.body.path for x in sites} == {T + 'AIDGenerator::generate'}, 'WHO', T + 'MIDGenerator::new', 'message-id generators are created only by AIDGenerator::generate', detail=str(sites))
    aggs = [x[0].path for x in ctx.aggregates(adt='transaction::MIDGenerator')]
    res.check(set(aggs) <= {T + 'MIDGenerator::new'}, 'WHO', 'transaction::MIDGenerator', 'constructed only in MIDGenerator::new', detail=str(aggs))
    asites = ctx.calls_to(T + 'AIDGenerator::new')
    res.check(len(asites) == 1 and asites[0].body.path == 'handler::DhtHandler::new', 'WHO', T + 'AIDGenerator::new', 'one action-id generator per node, created in DhtHandler::new', detail=str(asites))
    ws = ctx.field_writes(r'^handler::DhtHandler$', 'aid_generator')
    res.check(not ws, 'WHO', 'handler::DhtHandler.aid_generator', 'the action-id generator is never replaced', detail=str([x[0].path for x in ws]))
    gs = ctx.calls_to(T + 'AIDGenerator::generate')
    exp = {'handler::DhtHandler::new', 'handler::DhtHandler::start_lookup::{closure#0}', T + 'AIDGenerator::generate'}
    res.check({x.body.path for x in gs} <= exp and len(gs) >= 3, 'WHO', T + 'AIDGenerator::generate', 'activities obtain their generator from the node generator: refresh, bootstrap (construction) and each search', detail=str(gs))
    for ty, f in (('action::lookup::TableLookup', 'id_generator'), ('action::refresh::TableRefresh', 'id_generator'), ('action::bootstrap::TableBootstrapInner', 'id_generator')):
        ws = ctx.field_writes('^' + ty + '$', f)
        res.check(not ws, 'WHO', ty + '.' + f, 'an activity never swaps its generator', detail=str([x[0].path for x in ws]), key='gen-assign:' + ty)


def rule_generators(ctx, res):
    # AIDGenerator::generate / MIDGenerator::generate tables
    for gen, arr, gfn, shift in ((T + 'AIDGenerator::generate', 'action_ids', T + 'generate_aids', True), (T + 'MIDGenerator::generate', 'message_ids', T + 'generate_mids', False)):
        b = ctx.body(gen)
        res.touch(b)
        s = Sym(b)
        s.run()
        # an iteration that refills and goes round again (`loop { if let Some(id) = ids.get(i) { .. return } self.refill() }`)
        # is the same retry as the recursive call it replaces
        s.loop_info()
        judged = list(s.complete_paths()) + [p for p in s.paths if p.end == 'loop']
        ok = len(judged) >= 2
        seen_kinds = set()
        inline = ctx.f.body(gfn) is None      # no separate block function: a shared (generic) helper was inlined into generate
        miss_paths = []
        for p in judged:
            # "is there an id left in the block?": `ids.get(curr_index)` is Some, or `curr_index < ids.len()` / `< LEN`
            got = [option_is_some(literal(c)[2]) for c in p.conds if literal(c)[0] == 'variant' and literal(c)[1][0] == 'call' and literal(c)[1][1].endswith('::get')
                   and is_field_of_param(literal(c)[1][2][0], 'self', arr) and is_field_of_param(literal(c)[1][2][1], 'self', 'curr_index')]
            for c in p.conds:
                l = literal(c)
                if l[0] == 'lt' and l[3] is not None and is_field_of_param(l[1], 'self', 'curr_index'):
                    lim = strip_transparent(l[2])
                    is_len = (isinstance(lim, tuple) and lim[0] == 'call' and lim[1].split('::')[-1] == 'len' and field_chain(strip_transparent(lim[2][0]))[-1:] == [arr]) or term_int(lim) == 2048
                    if is_len:
                        got.append(bool(l[3]))
            if p.end == 'loop':
                # only an iteration of the retry loop itself counts: the back edge returns to (or before) the "id left?" test
                tests = [c[2] for c in p.conds if c[2] is not None and ((literal(c)[0] == 'variant' and isinstance(literal(c)[1], tuple) and literal(c)[1][0] == 'call' and literal(c)[1][1].endswith('::get'))
                                                                  or (literal(c)[0] == 'lt' and is_field_of_param(literal(c)[1], 'self', 'curr_index')))]
                back = getattr(p, 'loop_to', None)
                if not got or back is None or not tests or back not in p.blocks or p.blocks.index(back) > min(p.blocks.index(t) for t in tests if t in p.blocks):
                    continue          # an iteration of some inner loop (filling the block)
            if not got:
                ok = False
                continue
            ws_seq = [(field_chain(e[1])[0], e[2]) for e in lib.writes_of(p) if field_chain(e[1])]
            ws = dict(ws_seq)          # last write per field
            first = {}
            for k, v in ws_seq:
                first.setdefault(k, v)
            if got[0]:
                seen_kinds.add('hit')
                # hand out ids[curr_index], advance by one
                inc = ws.get('curr_index')
                if not (set(ws) == {'curr_index'} and inc[0] == 'bin' and inc[1] == 'Add' and is_field_of_param(inc[2], 'self', 'curr_index') and term_int(inc[3]) == 1):
                    ok = False
                r = p.ret
                if shift:
                    a = strip_transparent(r[2][0]) if r[0] == 'call' and r[1] == T + 'MIDGenerator::new' else None
                    if not (a and a[0] == 'bin' and a[1] == 'Shl' and term_int(a[3]) == 24 and (find_calls(a[2], '::get') or (strip_transparent(a[2])[0] == 'index' and is_field_of_param(strip_transparent(a[2])[2], 'self', 'curr_index')))):
                        ok = False
                else:
                    a = strip_transparent(r[2][0]) if r[0] == 'call' and r[1] == T + 'TransactionID::new' else None
                    if not (a and a[0] == 'bin' and a[1] == 'BitOr' and is_field_of_param(a[2], 'self', 'action_id') and (find_calls(a[3], '::get') or (strip_transparent(a[3])[0] == 'index' and is_field_of_param(strip_transparent(a[3])[2], 'self', 'curr_index')))):
                        ok = False
            else:
                seen_kinds.add('miss')
                # block exhausted: new shuffled block from next_alloc, index reset, then retry (by recursion, or by falling
                # through to the hand-out code: the id handed out is then ids'[0] and the index ends at 1)
                na, ids, ci0 = first.get('next_alloc'), first.get(arr), first.get('curr_index')
                shuffled = [e for e in p.effects if e[0] == 'call' and e[1].endswith('::shuffle')]
                if inline:
                    # the block is computed in place (generic helper inlined): judged by the block table below
                    fresh = na is not None and ids is not None and term_int(ci0) == 0 and bool(shuffled) and strip_transparent(shuffled[0][2][0]) == strip_transparent(ids)
                    miss_paths.append((p, na))
                else:
                    fresh = (na is not None and ids is not None and term_int(ci0) == 0 and find_calls(na, gfn.split('::')[-1]) and find_calls(ids, gfn.split('::')[-1])
                             and is_field_of_param(find_calls(na, gfn.split('::')[-1])[0][2][0], 'self', 'next_alloc') and bool(shuffled))
                retry = ((p.end == 'loop') or (p.ret is not None and p.ret[0] == 'call' and p.ret[1] == gen)) and term_int(ws.get('curr_index')) == 0
                idx0 = [x for x in lib.term_walk(p.ret or ()) if isinstance(x, tuple) and x and x[0] == 'index' and term_int(x[2]) == 0
                        and (find_calls(x[1], gfn.split('::')[-1]) or (inline and ids is not None and strip_transparent(x[1]) == strip_transparent(ids)))]
                direct = bool(idx0) and term_int(ws.get('curr_index')) == 1 and (p.ret is not None and p.ret[0] == 'call' and p.ret[1] in (T + 'MIDGenerator::new', T + 'TransactionID::new'))
                if not (fresh and (retry or direct)):
                    ok = False
        ok = ok and seen_kinds == {'hit', 'miss'}
        res.check(ok, 'TABLE', gen, 'hand out ids[curr_index] and advance by one; when the block is exhausted allocate the next block from next_alloc, shuffle it, reset the index and retry', site=b.span)
        maxc = ctx.f.const_value(T + ('MAX_ACTION_ID' if shift else 'MAX_MESSAGE_ID'))
        ln = 2048
        if inline:
            g, gs = b, s
            rows = [(p, (lambda t: is_field_of_param(t, 'self', 'next_alloc')), na) for p, na in miss_paths]
        else:
            g = ctx.body(gfn)
            res.touch(g)
            gs = Sym(g)
            gs.run()
            rows = [(p, (lambda t: is_param(t, 'next_alloc')), p.ret[2].get('0') if p.ret[0] == 'agg' else None) for p in gs.complete_paths()]
        okg = bool(rows)
        wraps = set()
        for p, is_na, end in rows:
            wrap = []
            for c in p.conds:
                l = literal(c)
                if l[0] == 'eq' and l[3] is not None and ((is_na(strip_transparent(l[1])) and term_int(l[2]) == maxc) or (isinstance(l[2], tuple) and is_na(strip_transparent(l[2])) and term_int(l[1]) == maxc)):
                    wrap.append(l[3])
            if not wrap or end is None:
                okg = False
                continue
            wraps.add(wrap[-1])
            if wrap[-1]:
                if term_int(end) != ln:
                    okg = False
            else:
                e2 = strip_transparent(end)
                if not (e2[0] == 'bin' and e2[1].replace('WithOverflow', '') == 'Add' and is_na(strip_transparent(e2[2])) and term_int(strip_transparent(e2[3])) == ln):
                    okg = False
        okg = okg and wraps == {True, False}
        # fill loop: ids[index] = value over enumerate(start..end)
        okf = False
        for p in gs.paths:
            if p.end == 'loop':
                for e in lib.writes_of(p):
                    if e[1][0] == 'index' and field_chain(e[1][2])[-2:] == ['0', '0'] and field_chain(e[2])[-2:] == ['0', '1'] and find_calls(e[2], '::enumerate'):
                        okf = True
                    # the same fill written as `for (slot, id) in ids.iter_mut().zip(start..end) { *slot = id }`
                    z = find_calls(e[2], '::zip')
                    if z and field_chain(strip_transparent(e[1]))[-2:] == ['0', '0'] and field_chain(strip_transparent(e[2]))[-2:] == ['0', '1'] and find_calls(e[1], '::zip') == z:
                        slots, vals = strip_transparent(z[0][2][0]), strip_transparent(z[0][2][1])
                        while isinstance(vals, tuple) and vals and vals[0] == 'call' and vals[1].split('::')[-1] in ('clone', 'into_iter'):
                            vals = strip_transparent(vals[2][0])
                        whole = isinstance(slots, tuple) and slots[0] == 'call' and slots[1].split('::')[-1] == 'iter_mut' and 'repeat' in fmt(slots) and not find_calls(slots, '::index')
                        if whole and isinstance(vals, tuple) and vals[0] == 'agg' and vals[1].startswith('std::ops::Range::'):
                            st_, en_ = strip_transparent(vals[2].get('start')), strip_transparent(vals[2].get('end'))
                            span_ok = (term_int(st_) is not None and term_int(en_) is not None and term_int(en_) - term_int(st_) == ln) or \
                                      (en_[0] == 'bin' and en_[1].replace('WithOverflow', '') == 'Add' and strip_transparent(en_[2]) == st_ and term_int(strip_transparent(en_[3])) == ln)
                            if span_ok:
                                okf = True
        res.check(okg and okf, 'TABLE', gen + ' (block computed in place)' if inline else gfn, 'block = [start, start + 2048) with start = 0 when next_alloc == MAX (wrap) else next_alloc; every slot of the block array is filled', site=g.span)
    # composition and decomposition
    b = ctx.body(T + 'TransactionID::new')
    s = Sym(b)
    s.run()
    ok = all(p.ret[0] == 'agg' and strip_transparent(p.ret[2].get('bytes'))[0] == 'call' and p.ret[2].get('bytes')[1].endswith('to_be_bytes') for p in s.complete_paths()) and s.complete_paths()
    res.check(ok, 'TABLE', b.path, 'ids are serialised big-endian')
    rule_prefix_extraction(ctx, res)


def rule_prefix_extraction(ctx, res):
    """the activity prefix of a received id is all of its upper 40 bits: an id is attributed to an activity only if the whole
    prefix equals that activity's (shared with C12 / C03: which activity a response is routed to)"""
    b = ctx.body(T + 'TransactionID::action_id')
    s = Sym(b)
    s.run()
    ok = all(p.ret[0] == 'call' and p.ret[1] == T + 'ActionID::from_transaction_id' and find_calls(p.ret, 'from_be_bytes')
             and field_chain(strip_transparent(find_calls(p.ret, 'from_be_bytes')[0][2][0])) == ['bytes'] for p in s.complete_paths()) and s.complete_paths()
    res.check(ok, 'TABLE', b.path, 'the action prefix is read back big-endian (sibling of to_be_bytes)')
    b = ctx.body(T + 'ActionID::from_transaction_id')
    res.touch(b)
    s = Sym(b)
    s.run()
    ok = bool(s.complete_paths())
    why = ''
    for p in s.complete_paths():
        v = p.ret[2].get('action_id') if p.ret[0] == 'agg' else None
        v = strip_transparent(v) if v is not None else None
        good = False
        if isinstance(v, tuple) and v[0] == 'bin' and v[1] == 'Shr' and term_int(v[3]) == 24:
            x = strip_transparent(v[2])
            if is_param(x) and x[1] == 1:
                good = True
            elif isinstance(x, tuple) and x[0] == 'bin' and x[1] == 'BitAnd':
                # a mask before the shift is harmless only if it keeps every one of the 40 prefix bits
                for a_, m_ in ((x[2], x[3]), (x[3], x[2])):
                    mm = term_int(strip_transparent(m_))
                    if is_param(strip_transparent(a_)) and mm is not None and (mm >> 24) & ((1 << 40) - 1) == (1 << 40) - 1:
                        good = True
        if not good or p.conds:
            ok = False
            why = fmt(v)[:100] if v is not None else fmt(p.ret)[:100]
    res.check(ok, 'TABLE', b.path, 'reader shift (>> MESSAGE_ID_SHIFT) equals the writer shift (<< MESSAGE_ID_SHIFT)', detail=why)


def rule_tid_sources(ctx, res):
    """every Request message is built with a transaction id produced by a `generate()` of the constructing activity's generator"""
    aggs = [x for x in ctx.aggregates(adt='message::MessageBody', variant='Request') if not ctx.is_derived(x[0].path) and not x[0].path.startswith('<message::Message as std::convert::TryFrom')]
    res.sites += len(aggs)
    res.check(len(aggs) >= 3, 'WHO', 'message::MessageBody::Request', 'request construction sites (floor 3)', detail=str(len(aggs)))
    bodies = {x[0].path: x[0] for x in aggs}
    for path, body in bodies.items():
        res.touch(body)
        s = Sym(body, max_paths=200000)
        s.run(env=lib.coroutine_param_env(body) if body.kind == 'coroutine' else None)
        ok = True
        n = 0
        s.loop_info()
        loops = s._loop_bodies
        for p in s.paths:
            msgs = []
            for e in p.effects:
                if e[0] == 'call' and e[1] in ('socket::Socket::send', 'socket::Socket::send_request'):
                    m = message_of_send(e)
                    if m is not None:
                        msgs.append(m)
                        # an id must be generated in the same loop iteration as the send that uses it
                        tid0 = strip_transparent(m[2].get('transaction_id'))
                        if tid0[0] == 'call' and tid0[1] == 'transaction::MIDGenerator::generate':
                            for comp in loops:
                                if e[3] in comp and tid0[3] not in comp:
                                    ok = False
            if p.end == 'return' and p.ret and p.ret[0] == 'agg' and p.ret[1] == 'message::Message::Message':
                msgs.append(p.ret)
            for m in msgs:
                kind, inner = body_of_message(m)
                if kind != 'Request':
                    continue
                n += 1
                tid = strip_transparent(m[2].get('transaction_id'))
                if tid[0] == 'call' and tid[1] == 'transaction::MIDGenerator::generate':
                    g = strip_transparent(tid[2][0])
                    if not (field_chain(g)[-1:] == ['id_generator'] or find_calls(g, '::lock')):
                        ok = False
                elif is_param(tid, 'transaction_id'):
                    pass  # make_find_node_request(trans_id, ..): checked at its call sites below
                else:
                    ok = False
        res.check(ok and n >= 1, 'FLOW', path, 'every query built here carries TransactionID::as_ref() of an id freshly produced by the activity\'s own id_generator', key='tid-source')
    # make_find_node_request call sites pass generate() of the bootstrap generator
    b, s = c15.run_sym(ctx, res)
    ok = True
    n = 0
    for body in (b, ctx.co('action::bootstrap::TableBootstrapInner::send_bucket_bootstrap_requests')):
        ss = s if body is b else Sym(body)
        if body is not b:
            ss.run(env=lib.coroutine_param_env(body))
        for p in ss.paths:
            for e in p.effects:
                if e[0] == 'call' and e[1] == 'action::bootstrap::TableBootstrapInner::make_find_node_request':
                    n += 1
                    t = strip_transparent(e[2][0])
                    if not (t[0] == 'call' and t[1] == 'transaction::MIDGenerator::generate' and find_calls(t, '::lock') and 'id_generator' in str(t)):
                        ok = False
    res.check(ok and n >= 2, 'FLOW', 'action::bootstrap::TableBootstrapInner::make_find_node_request', 'bootstrap queries carry ids of the bootstrap generator', detail=str(n))
    # the shared first-round id is drawn anew for every bootstrap attempt: the generate() feeding a sending call lies in every
    # loop that contains that call (an id is never carried around a loop)
    s.loop_info()
    okl = True
    nl = 0
    for p in s.paths:
        for e in p.effects:
            if e[0] == 'call' and e[1] in ('action::bootstrap::TableBootstrapInner::send_to_initial_nodes', 'socket::Socket::send', 'socket::Socket::send_request'):
                gens = [x for a in e[2] for x in find_calls(a, 'MIDGenerator::generate')]
                if not gens:
                    if e[1].endswith('send_to_initial_nodes'):
                        okl = False   # the message of the shared round does not visibly come from a fresh id
                    continue
                nl += 1
                for comp in s._loop_bodies:
                    if e[3] in comp and any(g[3] not in comp for g in gens):
                        okl = False
    res.check(okl and nl >= 1, 'FLOW', b.path, 'every bootstrap attempt draws a fresh id for its shared first round (the id is generated inside the attempt loop that sends it)', key='fresh-per-attempt')


def run(ctx, res):
    rule_consts(ctx, res)
    rule_not_clonable(ctx, res)
    rule_generators(ctx, res)
    rule_tid_sources(ctx, res)
    c15.rule_dedup(ctx, res)
