"""C18 - table refresh keeps one steady cadence however often the node re-bootstraps (structural: token conservation).

Decides: the refresh timer token is constructed and armed at a single site; before arming, the token
stored in the refresh object is taken and cancelled (or none was stored); the new token is stored;
nothing else touches the stored token; the two entries (timer fired / bootstrap completed) go through
that routine on the handler's single refresh object and timer. By induction at most one refresh
token is pending, so rounds happen at most once per 6 s plus once per bootstrap completion."""
from . import common, refresh

EXPLANATION = __doc__
ASSUMPTIONS = ['Timer::cancel removes the entry with that (deadline, id) key; ids are unique per Timer', 'inductive argument in DESIGN.md section 4/C18']


def run(ctx, res):
    refresh.rule_single_chain(ctx, res)
    common.rule_timer_cancel(ctx, res)
