"""C02 - a search reaches the 8 closest nodes, announces to them, yields every peer found (partial).

Decides: announce fan-out (<= ANNOUNCE_PICK_NUM = 8 over the candidate list, which is kept sorted by
XOR distance because it is only ever extended by binary-search insertion of target ^ id), announce
content (own id, searched hash, that node's token, configured port from the builder), that every
value of an accepted answer is forwarded on every path (end-game or not), and that the end-game
queries every candidate not yet queried. Convergence to the globally closest 8 is NOT decided."""
from . import lookup, common, lib
from .lib import Sym, strip_transparent, is_param, field_chain, root_of, find_calls, fmt

EXPLANATION = __doc__
ASSUMPTIONS = ['Vec::insert(i, x) keeps the order of the other elements; binary_search_by returns the position that keeps the list sorted',
               'convergence (distance-to-beat iteration reaching the globally closest nodes for every topology) is outside this check']


def rule_port_config(ctx, res):
    """the announce port handed to the finishing routine is the builder's announce_port"""
    b = ctx.body('handler::DhtHandler::new')
    res.touch(b)
    s = Sym(b)
    s.run()
    ok = bool(s.complete_paths())
    for p in s.complete_paths():
        r = p.ret
        if not (r[0] == 'agg' and r[1] == 'handler::DhtHandler::DhtHandler' and is_param(strip_transparent(r[2].get('announce_port')), 'announce_port')
                and is_param(strip_transparent(r[2].get('read_only')), 'read_only')):
            ok = False
    res.check(ok, 'FLOW', b.path, 'DhtHandler.announce_port / read_only are the constructor parameters')
    wb = ctx.body('mainline_dht::MainlineDht::with_builder')
    res.touch(wb)
    ws = Sym(wb)
    ws.run()
    okb = False
    for p in ws.paths:
        for e in p.effects:
            if e[0] == 'call' and e[1] == 'handler::DhtHandler::new':
                a = [strip_transparent(x) for x in e[2]]
                okb = field_chain(a[5]) == ['announce_port'] and is_param(root_of(a[5]), 'builder') and field_chain(a[2]) == ['read_only'] and is_param(root_of(a[2]), 'builder')
    res.check(okb, 'FLOW', wb.path, 'the handler is constructed with builder.announce_port and builder.read_only')
    sb = ctx.body('mainline_dht::DhtBuilder::set_announce_port')
    res.touch(sb)
    ss = Sym(sb)
    ss.run()
    oks = False
    for p in ss.complete_paths():
        for e in p.effects:
            if e[0] == 'write' and field_chain(e[1]) == ['announce_port'] and lib.agg_variant(e[2]) == 'Some' and is_param(strip_transparent(e[2][2].get('0')), 'port'):
                oks = True
    res.check(oks, 'FLOW', sb.path, 'set_announce_port(p) stores Some(p)')


def run(ctx, res):
    lookup.rule_sorted(ctx, res)
    lookup.rule_announce(ctx, res, content=True)
    lookup.rule_finish_once(ctx, res)
    rule_port_config(ctx, res)
    lookup.rule_forward(ctx, res)
    lookup.rule_items_and_tokens(ctx, res)
    lookup.rule_endgame_covers(ctx, res)
    lookup.rule_round_nonempty(ctx, res)
    lookup.rule_initial_pick(ctx, res)
    lookup.rule_initial_marks(ctx, res)
    common.rule_send_transmits(ctx, res)
