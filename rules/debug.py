"""debug helper: python3 -m rules.debug <facts> <body regex> [mir|paths]"""
import sys, re
from .facts import Facts, show
from . import lib

def main():
    f = Facts(sys.argv[1])
    rx = sys.argv[2]
    mode = sys.argv[3] if len(sys.argv) > 3 else 'paths'
    for b in f.body_list:
        if not re.search(rx, b.path) or b.kind == 'stolen':
            continue
        if mode == 'mir':
            show(b)
            continue
        print('=== %s [%s] %s' % (b.path, b.kind, b.span))
        s = lib.Sym(b)
        try:
            s.run()
        except lib.Lost as e:
            print('  LOST', e)
            continue
        for p in s.paths:
            print('  -- path end=%s ret=%s blocks=%d' % (p.end, lib.fmt(p.ret) if p.ret else None, len(p.blocks)))
            for c in p.conds:
                lit = lib.literal(c)
                print('       if', lit[0], lib.fmt(lit[1]), '|', lib.fmt(lit[2]) if isinstance(lit[2], tuple) and lit[2] and isinstance(lit[2][0], str) and lit[2][0] != 'not' else lit[2], '=>', lit[3])
            for e in p.effects:
                if e[0] == 'call':
                    print('       call', lib.short(e[1]), [lib.fmt(a) for a in e[2]])
                elif e[0] == 'write':
                    print('       write', lib.fmt(e[1]), ':=', lib.fmt(e[2]))
                else:
                    print('       ', e[0], e[1])

main()
