"""Rename canonicalisation.

Rules are anchored on item paths (functions, fields).  A pure rename of a private function or of a
struct field is behaviour-preserving, so it must not raise an alarm.  Before the rules run, the fact
file is compared with the reference recorded for the reviewed tree (`rules/known_shapes.json`):

  * a function of the reference that is missing, and a new function with the same parent (module or
    impl type) whose MIR is *identical* modulo its own name, spans and local-variable names, is a
    rename: every occurrence of the new path in the facts is rewritten to the reference path;
  * a struct / variant whose field list has the same length and the same field types position by
    position, but other names at some positions, has renamed fields: projections, aggregates and the
    item table are rewritten to the reference names.  Types under `message` are excluded: their field
    names are the wire keys (serde), a rename there changes the encoding and is C13's business.

Anything else (rename plus edit, moved to another module, changed signature) is NOT canonicalised and
is met by the rules as an unknown function / a lost anchor.  The renames applied are reported in the
evidence of every check."""
import json, os, re, hashlib

HERE = os.path.dirname(os.path.abspath(__file__))
DROP = {'sp', 'span', 'debug', 'path', 'parent', 'ex'}
_ID = r'[A-Za-z0-9_]'
_LOC = re.compile(r'@[^ }>,)]*?:\d+:\d+(: \d+:\d+)?')


def _strip(x, self_paths, sigs):
    if isinstance(x, dict):
        if 'path' in x and 'full' in x and x.get('local'):
            # a crate-local callee: identified by its signature, not by its (possibly renamed) name
            p = x['path']
            if p in self_paths:
                return '<self>'
            return {'localfn': sigs.get(p, '?'), 'targs': x.get('targs')}
        out = {}
        for k, v in x.items():
            if k in DROP:
                continue
            if k == 'ty' and isinstance(v, str):
                v = re.sub(r' \{[^{}]*(\{[^{}]*\}[^{}]*)*\}$', '', v)   # fn-item types spell the item path
            out[k] = _strip(v, self_paths, sigs)
        return out
    if isinstance(x, list):
        return [_strip(v, self_paths, sigs) for v in x]
    if isinstance(x, str):
        for sp in self_paths:
            if sp in x:
                x = x.replace(sp, '<self>')
        if '@' in x:
            x = _LOC.sub('@', x)      # closure / coroutine types spell their source position
        return x
    return x


def shape_of(bodies, path, sigs):
    """fingerprint of a function together with its closures / coroutine bodies"""
    group = sorted((b for b in bodies if b['path'] == path or b['path'].startswith(path + '::{')), key=lambda b: b['path'])
    if not group:
        return None
    h = hashlib.sha256()
    for b in group:
        h.update(b['path'][len(path):].encode())
        h.update(json.dumps(_strip({k: v for k, v in b.items()}, [path], sigs), sort_keys=True).encode())
    return h.hexdigest()[:24]


def parent_of(path):
    return path.rsplit('::', 1)[0] if '::' in path else ''


def reference(j):
    """the table recorded for the reviewed tree"""
    sigs = {f['path']: f.get('sig') for f in j['items']['fns']}
    fns = {}
    bodies = {b['path']: b for b in j['bodies']}
    for f in j['items']['fns']:
        p = f['path']
        fns[p] = {'sig': f.get('sig'), 'shape': shape_of(j['bodies'], p, sigs)}
        if p in bodies:
            fns[p]['params'] = param_names(bodies[p])
    adts = {}
    for a in j['items']['adts']:
        adts[a['path']] = [[v['name'], [[fl['name'], fl.get('ty_norm') or fl.get('ty')] for fl in v['fields']]] for v in a.get('variants', [])]
    return {'fns': fns, 'adts': adts}


def param_names(b):
    """names of the parameters of a body, by position (None where the pattern is not a plain binding)"""
    out = [None] * b.get('arg_count', 0)
    for d in b.get('debug', []):
        a = d.get('arg')
        if a and 1 <= a <= len(out) and not d['place']['p']:
            out[a - 1] = d['name']
    return out


def load_reference():
    try:
        with open(os.path.join(HERE, 'known_shapes.json')) as fh:
            return json.load(fh)
    except OSError:
        return None


def _rewrite_strings(x, subs):
    """subs: list of (compiled regex, replacement)"""
    if isinstance(x, dict):
        return {k: _rewrite_strings(v, subs) for k, v in x.items()}
    if isinstance(x, list):
        return [_rewrite_strings(v, subs) for v in x]
    if isinstance(x, str):
        for rx, rep in subs:
            if rx.search(x):
                x = rx.sub(rep, x)
        return x
    return x


def _rename_fields(x, fmap):
    """fmap: {(adt, variant_or_None, new_name): old_name}; rewrites projections and aggregates in place"""
    if isinstance(x, dict):
        if 'bt' in x and 'n' in x and 'f' in x:
            for key in ((x['bt'], None, x['n']),):
                for (adt, var, new), old in fmap.items():
                    if adt == x['bt'] and new == x['n']:
                        x['n'] = old
                        break
        if x.get('k') == 'agg' and x.get('agg') == 'adt' and isinstance(x.get('fields'), list):
            for i, n in enumerate(x['fields']):
                for (adt, var, new), old in fmap.items():
                    if adt == x.get('adt') and new == n and (var is None or var == x.get('variant')):
                        x['fields'][i] = old
                        break
        for v in x.values():
            _rename_fields(v, fmap)
    elif isinstance(x, list):
        for v in x:
            _rename_fields(v, fmap)


def canonicalise(j, ref=None):
    """rewrite the fact JSON `j` in place to the reference names; returns the list of renames applied"""
    ref = ref or load_reference()
    if not ref:
        return []
    applied = []
    # ---- fields ----------------------------------------------------------------------------------
    fmap = {}
    for a in j['items']['adts']:
        old = ref['adts'].get(a['path'])
        if old is None or a['path'].startswith('message'):
            continue
        vs = a.get('variants', [])
        if len(vs) != len(old):
            continue
        for v, (oname, ofields) in zip(vs, old):
            if v['name'] != oname or len(v['fields']) != len(ofields):
                continue
            new_names = [fl['name'] for fl in v['fields']]
            old_names = [n for n, _ in ofields]
            if new_names == old_names or set(new_names) == set(old_names):
                continue
            if any((fl.get('ty_norm') or fl.get('ty')) != ot for fl, (_, ot) in zip(v['fields'], ofields)):
                continue
            changed = [(fl, on) for fl, on in zip(v['fields'], old_names) if fl['name'] != on]
            # a name that stays must stay in place; a changed name must be really new
            if any(fl['name'] in old_names for fl, _ in changed):
                continue
            for fl, on in changed:
                fmap[(a['path'], v['name'] if a.get('kind') == 'enum' else None, fl['name'])] = on
                applied.append('field %s.%s -> %s' % (a['path'], fl['name'], on))
                fl['name'] = on
    if fmap:
        _rename_fields(j['bodies'], fmap)
        # names of captured places (`self.slots` captured by a closure is called `_ref__self__slots`)
        subs = [(re.compile(r'(?<![A-Za-z0-9])%s(?![A-Za-z0-9])' % re.escape(new)), old) for (adt, var, new), old in fmap.items()]

        def fix(name):
            parts = name.split('__')
            return '__'.join(next((o for rx, o in subs if rx.fullmatch(p_)), p_) for p_ in parts)

        def walk(x):
            if isinstance(x, dict):
                if 'n' in x and 'f' in x and isinstance(x.get('bt'), str) and x['bt'].startswith('{'):
                    x['n'] = fix(x['n'])
                for v in x.values():
                    walk(v)
            elif isinstance(x, list):
                for v in x:
                    walk(v)
        for b in j['bodies']:
            if b.get('upvars'):
                b['upvars'] = [fix(u) for u in b['upvars']]
            walk(b.get('blocks') or [])
            walk(b.get('debug') or [])
        for at in j.get('attrs', []):
            for (adt, var, new), old in fmap.items():
                if at.get('path') == adt:
                    for fl in at.get('fields', []):
                        if fl.get('name') == new:
                            fl['name'] = old
    # ---- functions -------------------------------------------------------------------------------
    cur = {f['path']: f for f in j['items']['fns']}
    missing = [p for p in ref['fns'] if p not in cur]
    new = [p for p in cur if p not in ref['fns']]
    if missing and new:
        sigs = {f['path']: f.get('sig') for f in j['items']['fns']}
        shapes = {p: shape_of(j['bodies'], p, sigs) for p in new}
        subs = []
        for m in missing:
            r = ref['fns'][m]
            if not r.get('shape'):
                continue
            cands = [p for p in new if parent_of(p) == parent_of(m) and cur[p].get('sig') == r['sig'] and shapes[p] == r['shape']]
            if len(cands) == 1:
                n = cands[0]
                new.remove(n)
                subs.append((re.compile(r'(?<!%s)%s(?!%s)' % (_ID, re.escape(n), _ID)), m))
                applied.append('fn %s -> %s' % (n, m))
        if subs:
            for key in ('items', 'bodies', 'consts'):
                j[key] = _rewrite_strings(j[key], subs)
    # ---- parameter names ---------------------------------------------------------------------------
    # (rules name a value by the parameter it comes from; a renamed parameter keeps its position and type)
    cur = {f['path']: f for f in j['items']['fns']}
    for b in j['bodies']:
        r = ref['fns'].get(b['path'])
        if not r or not r.get('params') or b['path'] not in cur or cur[b['path']].get('sig') != r.get('sig'):
            continue
        now = param_names(b)
        if len(now) != len(r['params']) or now == r['params']:
            continue
        ren = {n: o for n, o in zip(now, r['params']) if n and o and n != o}
        if not ren or any(n in r['params'] for n in ren) or len(set(ren.values())) != len(ren):
            continue
        # the new name must not already be used by another variable of the function (or of its closures)
        family = [x for x in j['bodies'] if x['path'] == b['path'] or x['path'].startswith(b['path'] + '::{')]
        used = {d['name'] for x in family for d in x.get('debug', [])}
        if any(o in used for o in ren.values()):
            continue

        def fixn(name):
            parts = name.split('__')
            return '__'.join(ren.get(p_, p_) for p_ in parts)

        def walkn(x):
            if isinstance(x, dict):
                if 'n' in x and 'f' in x and isinstance(x.get('bt'), str) and x['bt'].startswith('{') and isinstance(x['n'], str):
                    x['n'] = fixn(x['n'])
                for v in x.values():
                    walkn(v)
            elif isinstance(x, list):
                for v in x:
                    walkn(v)
        for x in family:
            for d in x.get('debug', []):
                if d['name'] in ren:
                    d['name'] = ren[d['name']]
            if x.get('upvars'):
                x['upvars'] = [fixn(u) for u in x['upvars']]
            walkn(x.get('blocks') or [])
            walkn(x.get('debug') or [])
        for n, o in ren.items():
            applied.append('parameter %s of %s -> %s' % (n, b['path'], o))
    return applied
