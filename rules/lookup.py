"""Rules about the search state machine (action/lookup.rs and its call sites in handler.rs), shared by
C02, C03 and C04."""
from . import lib, common
from .lib import (Sym, Table, BOOL, Lost, literal, term_int, strip_transparent, is_field_of_param, option_is_some,
                  agg_variant, field_chain, root_of, is_param, find_calls, fmt, only_via_edge, must_pass, term_walk)
from .c12 import cond_edges
from .c05 import pipeline, message_of_send, body_of_message

L = 'action::lookup::TableLookup::'
RECV_RESPONSE = L + 'recv_response'
RECV_TIMEOUT = L + 'recv_timeout'
RECV_FINISHED = L + 'recv_finished'
START_ROUND = L + 'start_request_round'
START_ENDGAME = L + 'start_endgame_round'
STATUS = L + 'current_lookup_status'
INSERT_SORTED = 'action::lookup::insert_sorted_node'
GENERATE = 'transaction::MIDGenerator::generate'


def self_field(t, name):
    t = strip_transparent(t)
    return is_param(root_of(t), 'self') and field_chain(t) == [name]


def is_generate(t):
    t = strip_transparent(t)
    return isinstance(t, tuple) and t[0] == 'call' and t[1] == GENERATE and self_field(t[2][0], 'id_generator')


def sym_of(ctx, res, fn):
    b = ctx.co(fn)
    cache = ctx.__dict__.setdefault('_sym_cache', {})   # per analysed tree, never shared between trees
    key = ('lookup', fn)
    if key not in cache:
        s = Sym(b, max_paths=200000)
        s.run()
        cache[key] = s
        res.paths += len(s.paths)
    res.touch(b)
    return b, cache[key]


def coverage_gap(body, sym):
    seen = set()
    for p in sym.paths:
        seen.update(p.blocks)
    return sorted(b for b in body.reachable(0) if b not in seen and not body.blocks[b]['cleanup'] and body.blocks[b]['term']['k'] != 'unreachable')


def gate_lit(lit):
    rel, a, b2, truth = lit
    return (rel == 'variant' and a[0] == 'call' and a[1].endswith('::remove') and self_field(a[2][0], 'active_lookups')
            and is_param(strip_transparent(a[2][1]), 'trans_id') and option_is_some(b2) is True)


def in_endgame_lit(lit, want):
    rel, a, b2, truth = lit
    return rel == 'bool' and is_field_of_param(a, 'self', 'in_endgame') and truth is want


# ------------------------------------------------------------------------------------------------
# C03

def rule_gate(ctx, res):
    """GATE: everything an answer can cause is behind `active_lookups.remove(trans_id) is Some`"""
    b, s = sym_of(ctx, res, RECV_RESPONSE)
    gap = coverage_gap(b, s)
    res.check(not gap, 'COVER', b.path, 'path enumeration visited every reachable block', detail='unvisited: %s' % gap[:8])
    edges = cond_edges(b, s.paths, gate_lit)
    res.check(len(edges) == 1, 'DOM', b.path, 'found the transaction gate: active_lookups.remove(trans_id) is Some', detail=str(edges))
    guarded = {
        'stream send': ctx.calls_in(b, rx=r'mpsc::UnboundedSender::<T>::send$'),
        'candidate insertion': ctx.calls_in(b, INSERT_SORTED),
        'new query round': ctx.calls_in(b, START_ROUND) + ctx.calls_in(b, START_ENDGAME),
        'timer cancel': ctx.calls_in(b, rx=r'timer::Timer::<T>::cancel$'),
        'map insert (tokens)': ctx.calls_in(b, rx=r'HashMap::<K, V, S, A>::insert$|HashMap::<K, V, S>::insert$'),
    }
    floors = {'stream send': 1, 'candidate insertion': 1, 'new query round': 1, 'timer cancel': 1, 'map insert (tokens)': 1}   # non-vacuity
    for what, sites in guarded.items():
        res.sites += len(sites)
        res.check(len(sites) >= floors[what], 'WHO', b.path, '%s: at least %d site(s) found' % (what, floors[what]), detail=str(len(sites)), key='floor:' + what)
        for st in sites:
            # .. on the CFG (the gate's Some edge dominates the site) and on every enumerated path (the value tested on that
            # edge really is the result of `remove`: an id is consumed by the answer that passes, whatever phase the search is in)
            through = [p for p in s.paths if st.block in p.blocks]
            consumed = bool(through) and all(any(gate_lit(literal(c)) and c[2] in p.blocks and p.blocks.index(c[2]) < p.blocks.index(st.block) for c in p.conds) for p in through)
            res.check(only_via_edge(b, st.block, edges) and consumed, 'DOM', b.path, '%s is reached only through the transaction gate' % what, site=st.where, key='gated:' + what)
    return b, s, edges


def rule_items_and_tokens(ctx, res):
    """ITEMS / TOKENS: stream items only-from msg.values; token recorded under the responder's handle"""
    b, s = sym_of(ctx, res, RECV_RESPONSE)
    n_send = n_tok = 0
    ok_send = ok_tok = True
    for p in s.paths:
        for e in p.effects:
            if e[0] != 'call' or e[1] is None:
                continue
            if e[1].endswith('mpsc::UnboundedSender::<T>::send'):
                n_send += 1
                tx = strip_transparent(e[2][0])
                v = strip_transparent(e[2][1])
                nx = find_calls(v, '::next')
                src = find_calls(v, '::into_iter')
                good = self_field(tx, 'tx') and nx and src and field_chain(strip_transparent(src[0][2][0])) == ['values'] and is_param(root_of(strip_transparent(src[0][2][0])), 'msg')
                # v is exactly the Some payload of next()
                good = good and field_chain(v)[-1:] == ['0']
                ok_send = ok_send and bool(good)
            if e[1].endswith('::insert') and self_field(e[2][0], 'announce_tokens'):
                n_tok += 1
                k = strip_transparent(e[2][1])
                v = strip_transparent(e[2][2])
                good = (k[0] == 'call' and k[1] == 'node::Node::handle' and is_param(strip_transparent(k[2][0]), 'node')
                        and is_param(root_of(v), 'msg') and field_chain(v)[:1] == ['token'])
                ok_tok = ok_tok and bool(good)
    res.check(ok_send and n_send >= 1, 'FLOW', b.path, 'every stream item is an element of the gated response\'s values list (sent on the search\'s own tx)', detail='%d send effects' % n_send)
    res.check(ok_tok and n_tok >= 1, 'FLOW', b.path, 'a token is recorded under the responder\'s (id, address) handle and is the response\'s token', detail='%d inserts' % n_tok)
    # no other producer for any search stream
    sends = [x for x in ctx.calls_matching(r'mpsc::UnboundedSender::<T>::send$') if any('SocketAddr' in a for a in (lib.callee(x.term) or {}).get('targs', []))]
    res.sites += len(sends)
    res.check({x.body.path for x in sends} <= {b.path} and len(sends) >= 1, 'WHO', 'UnboundedSender<SocketAddr>::send', 'peer addresses are sent to a search stream only in recv_response (floor 1)',
              detail='%s' % sends)


def rule_route(ctx, res):
    """ROUTE: single call site of recv_response, behind lookups.get_mut(tid.action_id()), same tid, responder = as_good(rsp.id, source)"""
    sites = ctx.calls_to(RECV_RESPONSE)
    hb = ctx.co('handler::DhtHandler::handle_incoming_response')
    res.touch(hb)
    res.check(len(sites) == 1 and sites[0].body.path == hb.path, 'WHO', RECV_RESPONSE, 'recv_response has exactly one call site (the response router)', detail='%s' % sites)
    s = Sym(hb)
    s.run()
    ok = True
    n = 0
    for p in s.paths:
        for e in p.effects:
            if e[0] == 'call' and e[1] == RECV_RESPONSE:
                n += 1
                lk = strip_transparent(e[2][0])
                node = strip_transparent(e[2][1])
                tid = strip_transparent(e[2][2])
                msg = strip_transparent(e[2][3])
                gm = find_calls(lk, '::get_mut')
                good = (gm and field_chain(strip_transparent(gm[0][2][0])) == ['lookups'] and find_calls(gm[0][2][1], 'TransactionID::action_id')
                        and strip_transparent(find_calls(gm[0][2][1], 'TransactionID::action_id')[0][2][0]) == tid and is_param(msg, 'rsp')
                        and node[0] == 'call' and node[1] == 'node::Node::as_good' and is_param(strip_transparent(node[2][1]), 'addr')
                        and field_chain(strip_transparent(node[2][0])) == ['id'] and is_param(root_of(strip_transparent(node[2][0])), 'rsp'))
                ok = ok and bool(good)
    res.check(ok and n >= 1, 'FLOW', hb.path, 'the search found under the id\'s action prefix receives the same id, the same response and the responder as_good(rsp.id, source)')


def rule_outstanding(ctx, res):
    """OUTSTANDING: keys of active_lookups come from the search's own generator, in the iteration that sends that id"""
    n_ins = 0
    for fn in (START_ROUND, START_ENDGAME):
        b, s = sym_of(ctx, res, fn)
        gap = coverage_gap(b, s)
        res.check(not gap, 'COVER', b.path, 'path enumeration visited every reachable block', detail='unvisited: %s' % gap[:8])
        okk = True
        cnt = 0
        for p in s.paths:
            ins = [e for e in p.effects if e[0] == 'call' and e[1] and e[1].endswith('::insert') and self_field(e[2][0], 'active_lookups')]
            sends = [e for e in p.effects if e[0] == 'call' and e[1] == 'socket::Socket::send']
            for e in ins:
                cnt += 1
                key = strip_transparent(e[2][1])
                if not is_generate(key):
                    okk = False
                # the send that follows in this iteration carries the same id
                later = [x for x in sends if p.effects.index(x) > p.effects.index(e)]
                if later:
                    m = message_of_send(later[0])
                    if m is None or strip_transparent(m[2].get('transaction_id')) != key:
                        okk = False
                    kind, inner = body_of_message(m) if m else (None, None)
                    if kind != 'Request' or agg_variant(inner) != 'GetPeers':
                        okk = False
            for x in sends:
                m = message_of_send(x)
                if m is None:
                    okk = False
                    continue
                tid = strip_transparent(m[2].get('transaction_id'))
                # every get_peers sent by the round was registered first
                if not any(strip_transparent(e[2][1]) == tid and p.effects.index(e) < p.effects.index(x) for e in ins):
                    okk = False
        n_ins += cnt
        res.check(okk and cnt >= 1, 'FLOW', b.path, 'each outstanding-query key is a fresh id from the search\'s own generator, registered before the get_peers carrying it is sent',
                  detail='%d insert effects' % cnt, key='outstanding-keys')
    # removal sites
    rem = []
    for fn in (RECV_RESPONSE, RECV_TIMEOUT, START_ROUND, RECV_FINISHED, START_ENDGAME, L + 'new', L + 'completed', STATUS):
        b = ctx.co(fn)
        for st in ctx.calls_in(b, rx=r'HashMap::<K, V, S, A>::(remove|clear|drain|retain|remove_entry)$|HashMap::<K, V, S>::(remove|clear|drain|retain)$'):
            rem.append((fn, st.callee.split('::')[-1]))
    res.check(sorted(rem) == sorted([(RECV_RESPONSE, 'remove'), (RECV_TIMEOUT, 'remove'), (START_ROUND, 'clear'), (RECV_FINISHED, 'clear')]), 'WHO', L + 'active_lookups',
              'outstanding queries are removed only by: the answer gate, the timeout gate, clear() after a round that sent nothing, clear() when finishing', detail='%s' % sorted(rem))
    ws = ctx.field_writes(r'^action::lookup::TableLookup$', 'active_lookups')
    res.check(not ws, 'WHO', L + 'active_lookups', 'the outstanding-query map is never replaced wholesale', detail='%s' % [(b.path) for b, _, _ in ws], key='active_lookups-assign')


def announce_loop_effects(ctx, res):
    b, s = sym_of(ctx, res, RECV_FINISHED)
    out = []
    for p in s.paths:
        for e in p.effects:
            if e[0] == 'call' and e[1] == 'socket::Socket::send':
                out.append((p, e))
    return b, s, out


def rule_announce(ctx, res, content=True):
    """announce_peer: only under will_announce, at most ANNOUNCE_PICK_NUM = 8 over the distance-sorted token holders,
    to the node whose token it carries, with the searched hash and the own id"""
    b, s, sends = announce_loop_effects(ctx, res)
    gap = coverage_gap(b, s)
    res.check(not gap, 'COVER', b.path, 'path enumeration visited every reachable block', detail='unvisited: %s' % gap[:8])
    aggs = ctx.aggregates(adt='message::Request', variant='AnnouncePeer')
    aggs = [(bb, blk, st) for bb, blk, st in aggs if not ctx.is_derived(bb.path)]
    res.sites += len(aggs)
    res.check(len(aggs) == 1 and aggs[0][0].path == b.path, 'WHO', 'message::Request::AnnouncePeer', 'announce_peer queries are constructed at exactly one site (the finishing routine)',
              detail='%s' % [(x[0].path, x[2]['sp']) for x in aggs])
    edges = cond_edges(b, s.paths, lambda lit: lit[0] == 'bool' and is_field_of_param(lit[1], 'self', 'will_announce') and lit[3] is True)
    def on_all_paths(blk):
        # path form of the same obligation (the flag test sits in a helper that returns an empty target list, so the CFG joins
        # before the loop): every enumerated path through the block has taken the will_announce == true edge
        through = [p for p in s.paths if blk in p.blocks]
        return bool(through) and not gap and all(any(literal(c)[0] == 'bool' and is_field_of_param(literal(c)[1], 'self', 'will_announce') and literal(c)[3] is True
                                                     and p.blocks.index(c[2]) < p.blocks.index(blk) for c in p.conds if c[2] in p.blocks) for p in through)
    for bb, blk, st in aggs:
        if bb.path == b.path:
            res.check((len(edges) == 1 and only_via_edge(b, blk, edges)) or on_all_paths(blk), 'DOM', b.path, 'the announce_peer construction is reached only through will_announce == true', site=st['sp'])
    for st in ctx.calls_in(b, 'socket::Socket::send'):
        res.check((len(edges) == 1 and only_via_edge(b, st.block, edges)) or on_all_paths(st.block), 'DOM', b.path, 'the finishing routine sends only under will_announce == true', site=st.where, key='send-under-will-announce')
    ws = ctx.field_writes(r'^action::lookup::TableLookup$', 'will_announce')
    res.check(not ws, 'WHO', L + 'will_announce', 'will_announce is fixed at construction', detail='%s' % [x[0].path for x in ws])
    k = ctx.f.const_value('action::lookup::ANNOUNCE_PICK_NUM')
    res.check(k == 8, 'CONST', 'action::lookup::ANNOUNCE_PICK_NUM', 'ANNOUNCE_PICK_NUM == 8', detail=str(k))
    ok = bool(sends)
    why = ''
    for p, e in sends:
        dest = strip_transparent(e[2][2])
        m = message_of_send(e)
        kind, inner = body_of_message(m) if m else (None, None)
        if kind != 'Request' or agg_variant(inner) != 'AnnouncePeer':
            ok = False
            why = 'send of something else than announce_peer'
            continue
        req = inner[2].get('0')
        f = req[2]
        # loop element: Some payload of next() over all_sorted_nodes.iter().filter(has token).take(ANNOUNCE_PICK_NUM)
        nx = find_calls(dest, '::next')
        if not nx:
            ok = False
            why = 'destination is not the loop element'
            continue
        it = strip_transparent(nx[0][2][0])
        pl = pipeline(it if it[0] == 'call' else it)
        names = [x[0] for x in pl]
        src = pl[0][1]
        if names[-1] == 'into_iter':
            names = names[:-1]
        if names[-1] == 'collect' and len(names) > 2:
            names = names[:-1]          # collected into a Vec first, then iterated: same elements in the same order
        want_names = ['src', 'iter', 'filter', 'take']
        if names in (['src'], ['src', 'iter']) and self_field(pl[0][1], 'all_sorted_nodes'):
            # form C: an explicit loop over the candidate list with a counter:
            #   for (_, node, _) in &all_sorted_nodes { if picked >= N { break } let Some(token) = tokens.get(node) else { continue }; picked += 1; send .. }
            okc, whyc = _announce_form_c(ctx, res, b, p, e, dest, f.get('token'), nx)
            if content:
                if not (self_field(f.get('id'), 'this_node_id') and self_field(f.get('info_hash'), 'target_id') and is_param(strip_transparent(f.get('port')), 'port')):
                    okc, whyc = False, 'id / info_hash / port are not own id / searched hash / configured port'
                if not is_generate(strip_transparent(m[2].get('transaction_id'))):
                    okc, whyc = False, 'transaction id not from the search\'s generator'
            if not okc:
                ok = False
                why = whyc
            continue
        if names == ['src', 'iter', 'filter_map', 'take'] and self_field(pl[0][1], 'all_sorted_nodes'):
            # form B: `.filter_map(|(_, node, _)| announce_tokens.get(node).map(|token| (node, token))).take(N)`:
            # the loop element is (node, that node's token)
            okb, whyb = _announce_form_b(ctx, res, pl, dest, f.get('token'), nx)
            take_n = pl[3][1]
            if not (take_n[0] == 'int' and take_n[1] == 8 and take_n[2] == 'action::lookup::ANNOUNCE_PICK_NUM'):
                okb, whyb = False, 'take() bound is not ANNOUNCE_PICK_NUM'
            if content:
                if not (self_field(f.get('id'), 'this_node_id') and self_field(f.get('info_hash'), 'target_id') and is_param(strip_transparent(f.get('port')), 'port')):
                    okb, whyb = False, 'id / info_hash / port are not own id / searched hash / configured port'
                if not is_generate(strip_transparent(m[2].get('transaction_id'))):
                    okb, whyb = False, 'transaction id not from the search\'s generator'
            if not okb:
                ok = False
                why = whyb
            continue
        if names != want_names or not self_field(pl[0][1], 'all_sorted_nodes'):
            ok = False
            why = 'announce loop is not all_sorted_nodes.iter().filter(..).take(..): %s' % names
            continue
        take_n = pl[3][1]
        if not (take_n[0] == 'int' and take_n[1] == 8 and take_n[2] == 'action::lookup::ANNOUNCE_PICK_NUM'):
            ok = False
            why = 'take() bound is not ANNOUNCE_PICK_NUM'
        # element.1 is the node handle: destination = element.1.addr; token = announce_tokens.get(element.1).unwrap().clone()
        elem = None
        fc = field_chain(dest)
        if fc[-2:] != ['1', 'addr']:
            ok = False
            why = 'destination is not the address of the loop node'
        tok = f.get('token')
        g = find_calls(tok, '::get')
        if not (g and self_field(g[0][2][0], 'announce_tokens') and find_calls(g[0][2][1], '::next') == nx and field_chain(strip_transparent(g[0][2][1]))[-1:] == ['1']):
            ok = False
            why = 'token is not announce_tokens[the loop node]'
        if content:
            if not (self_field(f.get('id'), 'this_node_id') and self_field(f.get('info_hash'), 'target_id') and is_param(strip_transparent(f.get('port')), 'port')):
                ok = False
                why = 'id / info_hash / port are not own id / searched hash / configured port'
            tid = strip_transparent(m[2].get('transaction_id'))
            if not is_generate(tid):
                ok = False
                why = 'transaction id not from the search\'s generator'
        # the filter closure keeps exactly the token holders
        fcl = pl[2][1]
        if not (fcl[0] == 'closure'):
            ok = False
        else:
            fb = ctx.body(fcl[1])
            res.touch(fb)
            fs = Sym(fb)
            fs.run()
            cps = fs.complete_paths()
            if not (len(cps) == 1 and cps[0].ret[0] == 'call' and cps[0].ret[1].endswith('::contains_key')):
                ok = False
                why = 'filter is not announce_tokens.contains_key(node)'
    res.check(ok, 'FLOW', b.path, 'each announce goes to a node of all_sorted_nodes.iter().filter(has token).take(ANNOUNCE_PICK_NUM) with that node\'s token, own id, searched hash, configured port',
              site=b.span, detail=why, key='announce-content')


def _announce_form_c(ctx, res, b, p, send, dest, tok, nx):
    from . import panics
    elem = ('field', ('downcast', nx[0], 'Some'), '0')
    # (1) a counter below ANNOUNCE_PICK_NUM is required on the path
    ctr = None
    for c in p.conds:
        rel, a, b2, truth = literal(c)
        if rel == 'lt' and truth is True and isinstance(a, tuple) and a and a[0] == 'loopvar' and term_int(b2) == 8 and strip_transparent(b2)[2] == 'action::lookup::ANNOUNCE_PICK_NUM':
            ctr = a
        # `if picked == N { break }` at the top of every iteration is as good: the counter moves in steps of one from 0
        if rel == 'eq' and truth is False:
            for x, y in ((a, b2), (b2, a)):
                if isinstance(x, tuple) and x and x[0] == 'loopvar' and isinstance(y, tuple) and term_int(y) == 8 and strip_transparent(y)[2] == 'action::lookup::ANNOUNCE_PICK_NUM':
                    ctr = x
    if ctr is None:
        return False, 'no `counter < ANNOUNCE_PICK_NUM` test on the way to the announce'
    # (2) the counter starts at 0 and its only other assignment is counter + 1
    ds = panics.defs_of(b, ctr[1])
    inits = [d for d in ds if d[0] == 'assign' and d[1]['k'] == 'use' and d[1]['op'].get('k') == 'const' and d[1]['op'].get('int') == 0]
    steps = []
    for d in ds:
        if d in inits:
            continue
        good = False
        if d[0] == 'assign' and d[1]['k'] == 'use' and d[1]['op'].get('k') in ('move', 'copy'):
            pl = d[1]['op']['place']
            if len(pl['p']) == 1 and isinstance(pl['p'][0], dict) and pl['p'][0].get('n') == '0':
                dd = panics.defs_of(b, pl['l'])
                if len(dd) == 1 and dd[0][0] == 'assign' and dd[0][1]['k'] == 'bin' and dd[0][1]['op'] == 'AddWithOverflow':
                    a_, b_ = dd[0][1]['a'], dd[0][1]['b']
                    good = a_.get('k') in ('copy', 'move') and a_['place']['l'] == ctr[1] and not a_['place']['p'] and b_.get('k') == 'const' and b_.get('int') == 1
        steps.append(good)
    if len(inits) != 1 or not steps or not all(steps):
        return False, 'the announce counter is not `0, then +1 per announce`'
    # (3) the increment happens on this path before the send
    idx = p.effects.index(send)
    inc = [i for i, x in enumerate(p.effects[:idx]) if x[0] == 'assert' and x[1] == 'overflow:Add' and x[2][0] == 'overflow' and strip_transparent(x[2][1][2]) == ctr and term_int(x[2][1][3]) == 1]
    if not inc:
        return False, 'an announce is sent without counting it'
    # (4) the token is the one stored for the loop node, the destination its address
    tk = strip_transparent(tok)
    g = find_calls(tk, '::get')
    if not (g and self_field(g[0][2][0], 'announce_tokens') and find_calls(g[0][2][1], '::next') == nx and field_chain(strip_transparent(g[0][2][1]))[-1:] == ['1']):
        return False, 'token is not announce_tokens[the loop node]'
    if not any(literal(c)[0] == 'variant' and literal(c)[1] == g[0] and option_is_some(literal(c)[2]) is True for c in p.conds):
        return False, 'token lookup not tested'
    if field_chain(dest)[-2:] != ['1', 'addr']:
        return False, 'destination is not the address of the loop node'
    return True, ''


def _announce_form_b(ctx, res, pl, dest, tok, nx):
    fcl = pl[2][1]
    if not (isinstance(fcl, tuple) and fcl[0] == 'closure' and ctx.f.body(fcl[1]) is not None):
        return False, 'filter_map argument is not a closure'
    kb = ctx.f.body(fcl[1])
    res.touch(kb)
    ks = Sym(kb)
    ks.run()
    cps = ks.complete_paths()
    if len(cps) == 2 and all(len(p.conds) == 1 for p in cps):
        # normal form of `tokens.get(node).map(|token| (node, token))`: a match on the lookup
        somes = [p for p in cps if agg_variant(p.ret) == 'Some']
        nones = [p for p in cps if agg_variant(p.ret) == 'None']
        if len(somes) != 1 or len(nones) != 1:
            return False, 'filter_map closure is not a lookup in announce_tokens'
        lit = literal(somes[0].conds[0])
        g = strip_transparent(lit[1])
        found = option_is_some(lit[2]) is True
        dc = 'Some'
        if lit[0] == 'variant' and g[0] == 'call' and g[1].endswith('Try>::branch') and len(g[2]) == 1:
            # `let token = tokens.get(node)?;`
            found = lit[2] == 0
            dc = 'Continue'
            g = strip_transparent(g[2][0])
        if not (lit[0] == 'variant' and found and g[0] == 'call' and g[1].split('::')[-1] == 'get' and literal(nones[0].conds[0])[1] == lit[1]):
            return False, 'filter_map closure is not a lookup in announce_tokens'
        recv, key = strip_transparent(g[2][0]), strip_transparent(g[2][1])
        ch = field_chain(recv)
        caps = [strip_transparent(c) for c in fcl[2]]
        cap = caps[kb.upvars.index(ch[0])] if ch and ch[0] in kb.upvars and is_param(root_of(recv)) and root_of(recv)[1] == 1 else None
        if cap is None or not self_field(cap, 'announce_tokens'):
            # the closure captured `self` as a whole: read the receiver with the captured values substituted
            _kb2, ks2 = lib.closure_sym(ctx, fcl, res)
            recv2 = None
            for p2 in ks2.complete_paths():
                for c2 in p2.conds:
                    for gc in find_calls(literal(c2)[1], '::get'):
                        recv2 = strip_transparent(gc[2][0])
            if recv2 is None or not self_field(recv2, 'announce_tokens'):
                return False, 'the map consulted is not announce_tokens'
        if not (is_param(root_of(key)) and root_of(key)[1] == 2 and field_chain(key)[-1:] == ['1']):
            return False, 'the key is not the node of the candidate entry'
        tup = somes[0].ret[2].get('0')
        if not (isinstance(tup, tuple) and tup[0] == 'agg' and tup[1] == 'tuple'):
            return False, 'the element is not (node, token)'
        e0, e1 = strip_transparent(tup[2].get('0')), strip_transparent(tup[2].get('1'))
        payload = ('field', ('downcast', lit[1], dc), '0')
        if strip_transparent(e1) != strip_transparent(payload) and e1 != payload:
            return False, 'second component is not the token found'
        if not (is_param(root_of(e0)) and root_of(e0)[1] == 2 and field_chain(e0)[-1:] == ['1']):
            return False, 'first component is not the node that was looked up'
        fc = field_chain(dest)
        if fc[-2:] != ['0', 'addr']:
            return False, 'destination is not the address of the loop node'
        tk = strip_transparent(tok)
        tnx = find_calls(tk, '::next')
        core = tk
        while isinstance(core, tuple) and core and core[0] == 'call' and core[1].split('::')[-1] in ('clone', 'to_vec', 'to_owned', 'as_ref', 'deref'):
            core = strip_transparent(core[2][0])
        if tnx != nx or field_chain(core)[-1:] != ['1']:
            return False, 'token is not the token component of the loop element'
        return True, ''
    if len(cps) != 1 or cps[0].conds:
        return False, 'filter_map closure branches'
    r = strip_transparent(cps[0].ret)
    if not (r[0] == 'call' and r[1].split('::')[-1] == 'map' and len(r[2]) == 2):
        return False, 'filter_map closure is not `tokens.get(node).map(..)`'
    g = strip_transparent(r[2][0])
    if not (g[0] == 'call' and g[1].split('::')[-1] == 'get'):
        return False, 'filter_map closure is not `tokens.get(node).map(..)`'
    recv, key = strip_transparent(g[2][0]), strip_transparent(g[2][1])
    ch = field_chain(recv)
    caps = [strip_transparent(c) for c in fcl[2]]
    cap = caps[kb.upvars.index(ch[0])] if ch and ch[0] in kb.upvars and is_param(root_of(recv)) and root_of(recv)[1] == 1 else None
    if cap is None or not self_field(cap, 'announce_tokens'):
        return False, 'the map consulted is not announce_tokens'
    if not (is_param(root_of(key)) and root_of(key)[1] == 2 and field_chain(key)[-1:] == ['1']):
        return False, 'the key is not the node of the candidate entry'
    k2 = r[2][1]
    if not (isinstance(k2, tuple) and k2[0] == 'closure' and ctx.f.body(k2[1]) is not None):
        return False, 'map argument is not a closure'
    k2b = ctx.f.body(k2[1])
    res.touch(k2b)
    k2s = Sym(k2b)
    k2s.run()
    c2 = k2s.complete_paths()
    if len(c2) != 1 or c2[0].conds:
        return False, 'map closure branches'
    r2 = c2[0].ret
    if not (isinstance(r2, tuple) and r2[0] == 'agg' and r2[1] == 'tuple'):
        return False, 'map closure does not build (node, token)'
    e0, e1 = strip_transparent(r2[2].get('0')), strip_transparent(r2[2].get('1'))
    # e1 is the closure argument (the token found), e0 a captured value: the very node that was looked up
    if not (is_param(root_of(e1)) and root_of(e1)[1] == 2 and not field_chain(e1)):
        return False, 'second component is not the token found'
    ch0 = field_chain(e0)
    caps2 = [strip_transparent(c) for c in k2[2]]
    cap0 = caps2[k2b.upvars.index(ch0[0])] if ch0 and ch0[0] in k2b.upvars and is_param(root_of(e0)) and root_of(e0)[1] == 1 else None
    if cap0 is None or not (is_param(root_of(cap0)) and root_of(cap0)[1] == 2 and field_chain(cap0)[-1:] == ['1']):
        return False, 'first component is not the node that was looked up'
    fc = field_chain(dest)
    if fc[-2:] != ['0', 'addr']:
        return False, 'destination is not the address of the loop node'
    tk = strip_transparent(tok)
    tnx = find_calls(tk, '::next')
    core = tk
    while isinstance(core, tuple) and core and core[0] == 'call' and core[1].split('::')[-1] in ('clone', 'to_vec', 'to_owned', 'as_ref', 'deref'):
        core = strip_transparent(core[2][0])
    if tnx != nx or field_chain(core)[-1:] != ['1']:
        return False, 'token is not the token component of the loop element'
    return True, ''


def rule_finish_once(ctx, res):
    """the finishing routine runs on an owned search: taken out of `lookups`, or never inserted"""
    sites = ctx.calls_to(RECV_FINISHED)
    res.sites += len(sites)
    callers = sorted({x.body.path for x in sites})
    exp = ['handler::DhtHandler::handle_lookup_completed::{closure#0}', 'handler::DhtHandler::start_lookup::{closure#0}']
    res.check(callers == exp and len(sites) == 2, 'WHO', RECV_FINISHED, 'the finishing routine has two call sites: search completion and a search that could not start', detail='%s' % callers)
    # completion: the search is the Some payload of lookups.remove(..)
    hb = ctx.co('handler::DhtHandler::handle_lookup_completed')
    res.touch(hb)
    s = Sym(hb)
    s.run()
    ok = True
    n = 0
    for p in s.paths:
        for e in p.effects:
            if e[0] == 'call' and e[1] == RECV_FINISHED:
                n += 1
                lk = strip_transparent(e[2][0])
                rm = find_calls(lk, '::remove')
                if not (rm and field_chain(strip_transparent(rm[0][2][0])) == ['lookups'] and find_calls(rm[0][2][1], 'TransactionID::action_id')):
                    ok = False
                if not self_field(e[2][1], 'announce_port'):
                    ok = False
        if any(e[0] == 'call' and e[1] and e[1].endswith('::insert') and 'lookups' in fmt(e[2][0]) for e in p.effects):
            ok = False
    res.check(ok and n >= 1, 'FLOW', hb.path, 'completion finishes the search it has just removed from the live map (owned, cannot be finished twice) with the configured announce port')
    sb = ctx.co('handler::DhtHandler::start_lookup')
    res.touch(sb)
    s2 = Sym(sb)
    s2.run()
    ok2 = True
    n2 = 0
    for p in s2.paths:
        fin = [e for e in p.effects if e[0] == 'call' and e[1] == RECV_FINISHED]
        ins = [e for e in p.effects if e[0] == 'call' and e[1] and e[1].endswith('::insert') and field_chain(strip_transparent(e[2][0])) == ['lookups']]
        if fin:
            n2 += 1
            if ins:
                ok2 = False
            lk = strip_transparent(fin[0][2][0])
            if not find_calls(lk, 'TableLookup::new'):
                ok2 = False
            if not self_field(fin[0][2][1], 'announce_port'):
                ok2 = False
            # only when completed() is true
            if not any(literal(c)[0] == 'bool' and literal(c)[1][0] == 'call' and literal(c)[1][1] == L + 'completed' and literal(c)[3] is True for c in p.conds):
                ok2 = False
        if p.end == 'return' and not fin and not ins and find_calls_in_effects(p, L + 'new'):
            ok2 = False  # a constructed search is neither stored nor finished
    res.check(ok2 and n2 >= 1, 'TABLE', sb.path, 'a new search is either stored (queries outstanding) or finished at once (nothing outstanding), never both, never neither')
    ws = ctx.field_writes(r'^handler::DhtHandler$', 'announce_port')
    res.check(not ws, 'WHO', 'handler::DhtHandler.announce_port', 'the announce port is fixed at construction', detail='%s' % [x[0].path for x in ws])


def find_calls_in_effects(p, path):
    return [e for e in p.effects if e[0] == 'call' and e[1] == path]


# ------------------------------------------------------------------------------------------------
# C02

def rule_sorted(ctx, res):
    """all_sorted_nodes is mutated only through insert_sorted_node, which inserts at the binary-search position of target ^ id"""
    sites = ctx.calls_to(INSERT_SORTED)
    res.sites += len(sites)
    res.check(len(sites) >= 1, 'WHO', INSERT_SORTED, 'insert_sorted_node call sites (non-vacuity)', detail=str(len(sites)))
    # Vec methods applied to the field anywhere
    muts = []
    for body in ctx.f.body_list:
        if body.kind == 'stolen' or not body.path.startswith('action::lookup'):
            continue
        for i, t in body.calls():
            c = lib.callee(t)
            if c is None:
                continue
    mb = ctx.mut_borrows_of_field(r'^action::lookup::TableLookup$', 'all_sorted_nodes')
    holders = sorted({b.path for b, _, _ in mb})
    exp = {RECV_RESPONSE + '::{closure#0}', START_ENDGAME + '::{closure#0}'}
    res.check(set(holders) <= exp, 'WHO', L + 'all_sorted_nodes', 'the candidate list is mutably borrowed only in recv_response (insert_sorted_node) and the end-game round (flag update)', detail='%s' % holders)
    ws = ctx.field_writes(r'^action::lookup::TableLookup$', 'all_sorted_nodes')
    res.check(not ws, 'WHO', L + 'all_sorted_nodes', 'the candidate list is never replaced wholesale', detail='%s' % [x[0].path for x in ws], key='all_sorted-assign')
    # in recv_response the &mut goes only into insert_sorted_node
    rb = ctx.co(RECV_RESPONSE)
    for b, blk, st in mb:
        if b.path != rb.path:
            continue
    b = ctx.body(INSERT_SORTED)
    res.touch(b)
    s = Sym(b)
    s.run()
    ok = True
    n = 0
    for p in s.paths:
        for e in p.effects:
            if e[0] == 'call' and e[1] and e[1].endswith('Vec::<T, A>::insert'):
                n += 1
                idx = strip_transparent(e[2][1])
                val = e[2][2]
                bs = find_calls(idx, 'binary_search_by')
                if not bs or not is_param(strip_transparent(bs[0][2][0]), 'nodes'):
                    ok = False
                if not (val[0] == 'agg' and val[1] == 'tuple'):
                    ok = False
                    continue
                d = strip_transparent(val[2].get('0'))
                if not (d[0] == 'call' and d[1].endswith('BitXor>::bitxor') and {fmt(strip_transparent(x)) for x in d[2]} == {'target', 'node.id'}):
                    ok = False
                if not (is_param(strip_transparent(val[2].get('1')), 'node') and is_param(strip_transparent(val[2].get('2')), 'pinged')):
                    ok = False
    res.check(ok and n >= 2, 'FLOW', INSERT_SORTED, 'an entry (target ^ id, node, flag) is inserted at the index found by binary search over the stored distances', site=b.span)
    # the comparator compares the stored distance with the new distance
    cb = ctx.f.body(INSERT_SORTED + '::{closure#0}')
    okc = False
    if cb is not None:
        cs = Sym(cb)
        cs.run()
        cps = cs.complete_paths()
        okc = len(cps) == 1 and cps[0].ret[0] == 'call' and cps[0].ret[1].endswith('::cmp')
    res.check(okc, 'TABLE', INSERT_SORTED + '::{closure#0}', 'the binary-search comparator is stored_distance.cmp(new_distance)')


def rule_forward(ctx, res):
    """FORWARD: after the gate, every path to the exit runs the loop that sends each element of msg.values"""
    b, s = sym_of(ctx, res, RECV_RESPONSE)
    edges = cond_edges(b, s.paths, gate_lit)
    if len(edges) != 1:
        raise Lost('transaction gate')
    gate_target = list(edges)[0][1]
    # the block creating the iterator over msg.values
    heads = set()
    for p in s.paths:
        for e in p.effects:
            if e[0] == 'call' and e[1] and e[1].endswith('::into_iter'):
                a = strip_transparent(e[2][0])
                if field_chain(a) == ['values'] and is_param(root_of(a), 'msg'):
                    heads.add(e[3])
    res.check(len(heads) >= 1 and must_pass(b, gate_target, heads), 'MPT', b.path, 'every path from an accepted answer to the exit passes the loop over msg.values (end-game or not)', detail=str(heads))
    # inside the loop every element is sent: the Some edge of next() leads to tx.send before the back edge
    ok = True
    n = 0
    for p in s.paths:
        if p.end != 'loop':
            continue
        nexts = [c for c in p.conds if literal(c)[0] == 'variant' and literal(c)[1][0] == 'call' and literal(c)[1][1].endswith('::next')
                 and field_chain(strip_transparent(find_calls(literal(c)[1], '::into_iter')[0][2][0]) if find_calls(literal(c)[1], '::into_iter') else ('x',)) == ['values']
                 and option_is_some(literal(c)[2]) is True]
        if not nexts:
            continue
        n += 1
        if not any(e[0] == 'call' and e[1] and e[1].endswith('UnboundedSender::<T>::send') for e in p.effects):
            ok = False
    res.check(ok and n >= 1, 'COUNT', b.path, 'each iteration of the values loop sends its element (%d loop paths)' % n)


def rule_endgame_covers(ctx, res):
    """ENDGAME-ALL: the end-game queries every candidate whose flag is false and sets the flag"""
    b, s = sym_of(ctx, res, START_ENDGAME)
    ok = True
    n = 0
    why = ''
    for p in s.paths:
        for e in p.effects:
            if e[0] == 'call' and e[1] == 'socket::Socket::send':
                n += 1
                dest = strip_transparent(e[2][2])
                nx = find_calls(dest, '::next')
                if not nx:
                    ok = False
                    why = 'destination is not the loop element'
                    continue
                pl = pipeline(strip_transparent(nx[0][2][0]))
                names = [x[0] for x in pl]
                if names != ['src', 'iter_mut', 'filter', 'into_iter'] and names != ['src', 'filter', 'into_iter']:
                    # iter_mut is not in the transparent list of pipeline(); accept explicit shape below
                    pass
                if not find_calls(nx[0], 'iter_mut') or 'all_sorted_nodes' not in fmt(nx[0]).replace('…', 'all_sorted_nodes'):
                    pass
    # structural: the loop source
    srcs = set()
    for p in s.paths:
        for e in p.effects:
            if e[0] == 'call' and e[1] and e[1].endswith('::iter_mut'):
                a = strip_transparent(e[2][0])
                srcs.add(tuple(field_chain(a)))
    res.check(srcs == {('all_sorted_nodes',)}, 'FLOW', b.path, 'the end-game loop walks the whole candidate list (all_sorted_nodes.iter_mut())', detail=str(srcs))
    # exactly the entries whose flag is false are queried: on every path that sends, the element's flag is known to be
    # false - through a `.filter(|e| !e.2)` on the iterator or through a test of the element inside the loop - and
    # nothing else about the element decides whether it is queried
    okf = True
    nsend = 0
    whyf = ''
    for p in s.paths:
        sends = [e for e in p.effects if e[0] == 'call' and e[1] == 'socket::Socket::send']
        if not sends:
            continue
        nsend += 1
        dest = strip_transparent(sends[0][2][2])
        nx = find_calls(dest, '::next')
        if not nx:
            okf = False
            whyf = 'the query is not sent to the loop element'
            continue
        elem_next = nx[0]
        evidence = False
        # (a) filter adaptor on the iterator
        it = strip_transparent(elem_next[2][0])
        while isinstance(it, tuple) and it and it[0] == 'call' and it[1].split('::')[-1] in ('into_iter',):
            it = strip_transparent(it[2][0])
        t = it
        while isinstance(t, tuple) and t and t[0] == 'call':
            nm = t[1].split('::')[-1]
            if nm == 'filter':
                cl = t[2][1]
                if isinstance(cl, tuple) and cl[0] == 'closure' and ctx.f.body(cl[1]) is not None:
                    fb = ctx.f.body(cl[1])
                    res.touch(fb)
                    fs = Sym(fb)
                    fs.run()
                    cps = fs.complete_paths()
                    r = cps[0].ret if len(cps) == 1 and not cps[0].conds else ('x',)
                    inner = None
                    if r[0] == 'un' and r[1] == 'Not':
                        inner = r[2]
                    elif r[0] == 'call' and r[1].endswith('Not>::not') and len(r[2]) == 1:
                        inner = r[2][0]
                    if inner is not None and field_chain(strip_transparent(inner))[-1:] == ['2'] and is_param(root_of(strip_transparent(inner))) and root_of(strip_transparent(inner))[1] == 2:
                        evidence = True
                    else:
                        okf = False
                        whyf = 'the iterator filter is not `!flag`'
                t = strip_transparent(t[2][0])
            elif nm in ('iter_mut', 'iter', 'deref_mut', 'deref', 'into_iter'):
                t = strip_transparent(t[2][0])
            else:
                okf = False
                whyf = 'unexpected adaptor %s on the end-game iterator' % nm
                break
        # (b) / other conditions on the element
        first = p.effects.index(sends[0])
        for c in p.conds:
            rel, a, b2, truth = literal(c)
            if rel == 'variant' and a == elem_next:
                continue
            if not find_calls(a, '::next') or elem_next not in find_calls(a, '::next'):
                continue
            if c[2] is not None and c[2] >= 0 and c[2] > sends[0][3] and False:
                continue
            if rel == 'bool' and field_chain(strip_transparent(a))[-1:] == ['2'] and truth is False:
                evidence = True
                continue
            # conditions evaluated after the send (send result, table update) do not decide whether it is sent
            if find_calls(a, 'Socket::send') or find_calls(a, 'find_node_mut'):
                continue
            okf = False
            whyf = 'whether an element is queried also depends on %s' % fmt(a)[:80]
        if not evidence:
            okf = False
            whyf = whyf or 'a candidate is queried without its flag having been tested'
    res.check(okf and nsend >= 1, 'TABLE', START_ENDGAME + ' filter', 'the end-game filter keeps exactly the candidates not yet queried (flag false)', detail=whyf)
    # flag set after a successful send, on the same element
    okw = False
    for p in s.paths:
        ws = [e for e in p.effects if e[0] == 'write' and term_int(e[2]) == 1 and field_chain(e[1])[-1:] == ['2']]
        snd = [e for e in p.effects if e[0] == 'call' and e[1] == 'socket::Socket::send']
        if ws and snd:
            okw = True
    res.check(okw, 'FLOW', b.path, 'a candidate is marked queried once its end-game query was sent')
    # the brute-force round is never skipped: the loop is unconditional, or the only condition guarding it is a flag that is never set
    guards = set()
    for p in s.paths:
        sends = [e for e in p.effects if e[0] == 'call' and e[1] == 'socket::Socket::send']
        if not sends:
            continue
        first = p.effects.index(sends[0])
        for c in p.conds:
            rel, a, b2, truth = literal(c)
            if rel == 'bool' and is_param(root_of(a), 'self') and len(field_chain(a)) == 1:
                guards.add((field_chain(a)[0], truth))
    okg = True
    why = ''
    for fld, truth in guards:
        ws = ctx.field_writes(r'^action::lookup::TableLookup$', fld)
        mb = ctx.mut_borrows_of_field(r'^action::lookup::TableLookup$', fld)
        # accepted: the guard requires the flag's initial value and nobody ever changes it
        init = None
        nb = ctx.co(L + 'new')
        for agg in ctx.aggregates(adt='action::lookup::TableLookup', body=nb):
            st = agg[2]
            i = st['rv']['fields'].index(fld)
            init = st['rv']['ops'][i].get('int')
        if fld == 'in_endgame':
            continue
        if ws or mb or init is None or bool(init) != truth:
            okg = False
            why = 'the end-game queries are skipped depending on `%s`, which is written in %s' % (fld, sorted({x[0].path for x in ws}))
    res.check(okg, 'WHO', b.path, 'the end-game round over all unqueried candidates is never skipped (any flag guarding it keeps its initial value)', detail=why, key='endgame-never-skipped')


# ------------------------------------------------------------------------------------------------
# C04

def rule_pair_timeout(ctx, res):
    b, s = sym_of(ctx, res, START_ROUND)
    ok = True
    n = 0
    for p in s.paths:
        for e in p.effects:
            if e[0] == 'call' and e[1] and e[1].endswith('::insert') and self_field(e[2][0], 'active_lookups'):
                n += 1
                key = strip_transparent(e[2][1])
                v = e[2][2]
                t = strip_transparent(v[2].get('1')) if v[0] == 'agg' else None
                good = (t is not None and t[0] == 'call' and t[1].endswith('Timer::<T>::schedule_in') and is_param(strip_transparent(t[2][0]), 'timer')
                        and strip_transparent(t[2][1]) == ('named', 'action::lookup::LOOKUP_TIMEOUT')
                        and agg_variant(t[2][2]) == 'LookupTimeout' and strip_transparent(t[2][2][2].get('0')) == key)
                ok = ok and bool(good)
    res.check(ok and n >= 1, 'PAIR', b.path, 'every outstanding non-end-game query owns a timer scheduled with LOOKUP_TIMEOUT that carries the same id', detail='%d inserts' % n)
    for name in ('LOOKUP_TIMEOUT', 'ENDGAME_TIMEOUT'):
        ms = ctx.f.duration_ms('action::lookup::' + name)
        res.check(ms == 1500, 'CONST', 'action::lookup::' + name, '%s == 1.5 s' % name, detail=str(ms))


def rule_endgame_armed(ctx, res):
    b, s = sym_of(ctx, res, START_ENDGAME)
    gap = coverage_gap(b, s)
    res.check(not gap, 'COVER', b.path, 'path enumeration visited every reachable block', detail='unvisited: %s' % gap[:8])
    arm_blocks = set()
    timeouts = set()
    for p in s.paths:
        for e in p.effects:
            if e[0] == 'call' and e[1] and e[1].endswith('Timer::<T>::schedule_in'):
                if strip_transparent(e[2][1]) == ('named', 'action::lookup::ENDGAME_TIMEOUT') and agg_variant(e[2][2]) == 'LookupEndGame' and is_generate(e[2][2][2].get('0')):
                    arm_blocks.add(e[3])
    res.check(len(arm_blocks) == 1 and must_pass(b, 0, arm_blocks), 'MPT', b.path, 'every path through the end-game start schedules LookupEndGame(own id) with ENDGAME_TIMEOUT', detail=str(arm_blocks))
    wblocks = set()
    for bb, blk, st in ctx.field_writes(r'^action::lookup::TableLookup$', 'in_endgame'):
        if bb.path == b.path and st['rv']['k'] == 'use' and st['rv']['op'].get('int') == 1:
            wblocks.add(blk)
    res.check(wblocks and must_pass(b, 0, wblocks), 'MPT', b.path, 'every path through the end-game start sets in_endgame = true')
    # who clears it
    clears = [(bb.path, st['rv']['op'].get('int')) for bb, blk, st in ctx.field_writes(r'^action::lookup::TableLookup$', 'in_endgame')]
    res.check(sorted(clears) == sorted([(b.path, 1), (ctx.co(RECV_FINISHED).path, 0)]), 'WHO', L + 'in_endgame', 'in_endgame is set only by the end-game start and cleared only by the finishing routine', detail=str(clears))
    # the end-game timer is shared by the end-game queries and is the only timer they get (no per-query timer that could be cancelled)
    scheds = [e for p in s.paths for e in p.effects if e[0] == 'call' and e[1] and e[1].endswith('Timer::<T>::schedule_in')]
    res.check(len({e[3] for e in scheds}) == 1, 'WHO', b.path, 'the end-game start schedules exactly one timer')


def rule_not_early(ctx, res):
    # Completed is constructed at one site with the table Completed <=> !in_endgame && outstanding.is_empty()
    # (a `status == ActionStatus::Completed` test builds a value only to compare with it: not a producer)
    aggs = [x for x in ctx.aggregates(adt='action::ActionStatus', variant='Completed') if not ctx.is_derived(x[0].path) and not ctx.only_compared(x[0], x[2])]
    res.check(len(aggs) == 1 and aggs[0][0].path == STATUS, 'WHO', 'action::ActionStatus::Completed', 'Completed is constructed at exactly one site', detail='%s' % [(x[0].path) for x in aggs])
    b = ctx.body(STATUS)
    res.touch(b)
    s = Sym(b)
    s.run()

    def classify(lit, c):
        rel, a, b2, truth = lit
        if rel == 'bool' and is_field_of_param(a, 'self', 'in_endgame'):
            return ('endgame', truth)
        if rel == 'bool' and a[0] == 'call' and a[1].endswith('::is_empty') and self_field(a[2][0], 'active_lookups'):
            return ('empty', truth)
        raise Lost('current_lookup_status: unrecognised condition %s' % fmt(a))

    tab = Table.build(s.complete_paths(), classify, lambda p: agg_variant(p.ret))
    bad, n = tab.compare({'endgame': BOOL, 'empty': BOOL}, lambda v: 'Completed' if (not v['endgame'] and v['empty']) else 'Ongoing')
    res.check(not bad, 'TABLE', STATUS, 'Completed <=> not in end-game and nothing outstanding', site=b.span, detail='; '.join('%s -> got %s want %s' % x for x in bad[:4]))
    # invariant preservation: after the gate, if not in end-game and nothing is outstanding, the end-game is started before the status is computed
    for fn in (RECV_RESPONSE, RECV_TIMEOUT):
        b, s = sym_of(ctx, res, fn)
        ok = True
        n = 0
        for p in s.complete_paths():
            def removed_from_outstanding(t):
                rm = find_calls(t, '::remove')
                return bool(rm) and self_field(rm[0][2][0], 'active_lookups')
            gated = any((literal(c)[0] == 'variant' and gate_lit(literal(c))) or
                        (literal(c)[0] == 'bool' and literal(c)[1][0] == 'call' and removed_from_outstanding(literal(c)[1]) and
                         ((literal(c)[1][1].endswith('::is_none') and literal(c)[3] is False) or (literal(c)[1][1].endswith('::is_some') and literal(c)[3] is True))) for c in p.conds)
            if not gated:
                continue
            n += 1
            lits = [literal(c) for c in p.conds]
            eg = [l[3] for l in lits if l[0] == 'bool' and is_field_of_param(l[1], 'self', 'in_endgame')]
            if not eg:
                ok = False
                continue
            if eg[-1] is True:
                continue  # already in the end-game: stays Ongoing until the end-game timer
            emp = [l[3] for l in lits if l[0] == 'bool' and l[1][0] == 'call' and l[1][1].endswith('::is_empty') and self_field(l[1][2][0], 'active_lookups')]
            if not emp:
                ok = False
                continue
            started = bool(find_calls_in_effects(p, START_ENDGAME))
            if emp[-1] is True and not started:
                ok = False
            # the status is computed last
            if not (p.ret[0] == 'call' and p.ret[1] == STATUS):
                ok = False
        res.check(ok and n >= 1, 'MPT', b.path, 'on every accepted-event path outside the end-game: outstanding empty => the end-game is started before the status is computed (%d paths)' % n,
                  key='inv-preserved')
    # start_request_round never leaves a search stored with nothing outstanding unnoticed: clear() only when nothing was sent
    b, s = sym_of(ctx, res, START_ROUND)


def rule_completion_handled(ctx, res):
    for fn, callee_fn in (('handler::DhtHandler::handle_incoming_response', RECV_RESPONSE), ('handler::DhtHandler::handle_check_lookup_timeout', RECV_TIMEOUT)):
        b = ctx.co(fn)
        res.touch(b)
        s = Sym(b)
        s.run()
        res.paths += len(s.paths)
        st_vals = common.enum_variants(ctx, 'action::ActionStatus')
        ok = True
        n = 0
        for p in s.complete_paths():
            if not find_calls_in_effects(p, callee_fn):
                continue
            n += 1
            status = None
            for c in p.conds:
                rel, a, b2, truth = literal(c)
                if rel == 'variant' and a[0] == 'await' and find_calls(a, callee_fn.split('::')[-1]):
                    status = 'Completed' if (b2 == st_vals['Completed'] or (isinstance(b2, tuple) and b2[0] == 'not' and st_vals['Ongoing'] in b2[1])) else 'Ongoing'
                if rel == 'eq' and truth is not None:
                    # `status == ActionStatus::Completed` (derived PartialEq) instead of a match
                    for x, y in ((a, b2), (b2, a)):
                        if isinstance(x, tuple) and x and x[0] == 'await' and find_calls(x, callee_fn.split('::')[-1]) and agg_variant(y) in st_vals:
                            hit = agg_variant(y)
                            other = [k for k in st_vals if k != hit]
                            status = hit if truth else (other[0] if len(other) == 1 else None)
            done = bool(find_calls_in_effects(p, 'handler::DhtHandler::handle_lookup_completed'))
            if status is None or (status == 'Completed') != done:
                ok = False
        res.check(ok and n >= 1, 'TABLE', b.path, 'Completed -> handle_lookup_completed, Ongoing -> search stays stored', key='completion-dispatch')
    # timer dispatch
    b = ctx.co('handler::DhtHandler::handle_timeout')
    res.touch(b)
    s = Sym(b)
    s.run()
    tv = common.enum_variants(ctx, 'action::ScheduledTaskCheck')
    seen = {}
    for p in s.complete_paths():
        var = None
        for c in p.conds:
            rel, a, b2, truth = literal(c)
            if rel == 'variant' and is_param(a, 'token'):
                var = {v: k for k, v in tv.items()}.get(b2)
        calls = [e[1] for e in p.effects if e[0] == 'call' and e[1] and e[1].startswith('handler::DhtHandler::handle_check') and not e[1].endswith('{closure#0}')]
        seen.setdefault(var, set()).update(calls)
    exp = {'TableRefresh': {'handler::DhtHandler::handle_check_table_refresh'}, 'LookupTimeout': {'handler::DhtHandler::handle_check_lookup_timeout'},
           'LookupEndGame': {'handler::DhtHandler::handle_check_lookup_endgame'}}
    res.check(seen == exp, 'TABLE', b.path, 'timer dispatch: LookupTimeout -> timeout handler, LookupEndGame -> end-game handler, TableRefresh -> refresh', detail=str(seen))
    eb = ctx.co('handler::DhtHandler::handle_check_lookup_endgame')
    res.touch(eb)
    es = Sym(eb)
    es.run()
    ok = all(find_calls_in_effects(p, 'handler::DhtHandler::handle_lookup_completed') for p in es.complete_paths()) and es.complete_paths()
    res.check(ok, 'MPT', eb.path, 'the end-game timer always completes the search')
    # handle_lookup_completed: remove + finish; the removed search is a local dropped at the end
    hb = ctx.co('handler::DhtHandler::handle_lookup_completed')
    hs = Sym(hb)
    hs.run()
    ok = True
    for p in hs.complete_paths():
        rm = [e for e in p.effects if e[0] == 'call' and e[1] and e[1].endswith('::remove') and field_chain(strip_transparent(e[2][0])) == ['lookups']]
        if not rm:
            ok = False
    res.check(ok, 'MPT', hb.path, 'completion always removes the search from the live map (its stream sender is dropped with it)')


def rule_cancel_safe(ctx, res):
    sites = [x for x in ctx.calls_matching(r'timer::Timer::<T>::cancel$') if x.body.path.startswith('action::lookup')]
    res.sites += len(sites)
    res.check(len(sites) == 1, 'WHO', 'timer::Timer::cancel (lookup)', 'one cancel site in the search code', detail='%s' % sites)
    b, s = sym_of(ctx, res, RECV_RESPONSE)
    edges = cond_edges(b, s.paths, lambda lit: in_endgame_lit(lit, False))
    for st in sites:
        if st.body.path == b.path:
            res.check(only_via_edge(b, st.block, edges), 'DOM', b.path, 'a query timer is cancelled only when not in the end-game (the shared end-game timer is never cancelled by an answer)', site=st.where)
    # a timer is cancelled only together with the removal of the query that owns it: the token comes out of the removed entry
    okc = True
    n = 0
    for fn in (RECV_RESPONSE, RECV_TIMEOUT, START_ROUND, START_ENDGAME, RECV_FINISHED):
        bb, ss = sym_of(ctx, res, fn)
        for p in ss.paths:
            for e in p.effects:
                if e[0] == 'call' and e[1] and e[1].endswith('Timer::<T>::cancel'):
                    n += 1
                    tok = strip_transparent(e[2][1])
                    rm = find_calls(tok, '::remove')
                    if not (rm and self_field(rm[0][2][0], 'active_lookups')):
                        okc = False
    res.check(okc and n >= 1, 'PAIR', L + 'active_lookups', 'every cancelled timer token is taken out of the outstanding-query entry that is being removed (a stored query never loses its timer)', key='cancel-from-removed')


def rule_timer_order(ctx, res):
    adt = ctx.f.adts.get('timer::Timeout')
    fields = [f['name'] for f in adt['variants'][0]['fields']] if adt else None
    derived = {im['trait'] for im in ctx.f.impls if im['self_ty'] == 'timer::Timeout' and im['derived']}
    res.check(fields == ['deadline', 'id'] and {'std::cmp::Ord', 'std::cmp::PartialOrd'} <= derived, 'TYPE', 'timer::Timeout',
              'Timeout derives Ord over (deadline, id) in that order: timers fire in deadline order', detail='%s %s' % (fields, sorted(derived)))
    tq = ctx.f.adts.get('timer::Timer')
    qty = [f['ty'] for f in tq['variants'][0]['fields'] if f['name'] == 'queue'] if tq else None
    res.check(qty and qty[0].startswith('std::collections::BTreeMap<timer::Timeout,'), 'TYPE', 'timer::Timer.queue', 'the queue is a BTreeMap keyed by Timeout', detail=str(qty))
    # poll_next takes the first key
    pb = None
    for b in ctx.f.body_list:
        if b.path.endswith('poll_next') and 'timer::Timer' in b.path:
            pb = b
    ok = False
    if pb is not None:
        res.touch(pb)
        ps = Sym(pb)
        ps.run()
        for p in ps.paths:
            for e in p.effects:
                if e[0] == 'call' and e[1] and e[1].endswith('::remove_entry'):
                    k = strip_transparent(e[2][1])
                    if find_calls(k, '::keys') and find_calls(k, '::next'):
                        ok = True
                if e[0] == 'call' and e[1] and (e[1].endswith('::pop_first') or e[1].endswith('::first_entry')):
                    ok = True
    res.check(ok, 'FLOW', 'timer::Timer::poll_next', 'the next timer to sleep on is the first key of the ordered queue')


def rule_shutdown_stream(ctx, res):
    b = ctx.body('mainline_dht::MainlineDht::search')
    res.touch(b)
    s = Sym(b)
    s.run()
    ok = bool(s.complete_paths())
    for p in s.complete_paths():
        r = p.ret
        # SearchStream(rx) ; the command carries tx
        snd = [e for e in p.effects if e[0] == 'call' and e[1] and e[1].endswith('UnboundedSender::<T>::send')]
        if len(snd) != 1:
            ok = False
            continue
        cmd = snd[0][2][1]
        if 'unbounded_channel' not in fmt(cmd) and not find_calls(cmd, 'unbounded_channel'):
            ok = False
        if any(e[0] == 'call' and e[1] and e[1].endswith('Clone>::clone') for e in p.effects):
            ok = False
    res.check(ok, 'TYPE', b.path, 'search() moves the only sender into the command; if the handler is gone the command (and sender) is dropped and the stream ends')


def _iter_domain(ctx, res, t):
    """normal form of an iterator term `src.iter().filter(F)*[.copied()]`: (source term, [predicate signatures]).
    A predicate signature is ('not-in', set term) for closures `|x| !SET.contains(x)`, else ('closure', path)."""
    from .c05 import pipeline
    pl = pipeline(strip_transparent(t))
    src = None
    preds = []
    for st in pl:
        if st[0] == 'src':
            src = strip_transparent(st[1])
            while isinstance(src, tuple) and src and src[0] == 'call' and src[1].split('::')[-1] in ('iter', 'deref', 'as_slice', 'into_iter'):
                src = strip_transparent(src[2][0])
        elif st[0] in ('copied', 'cloned', 'iter', 'into_iter', 'map'):
            continue          # element-wise stages: the domain has as many elements as before
        elif st[0] == 'filter':
            cl = st[1]
            sig = ('closure', fmt(cl))
            if isinstance(cl, tuple) and cl and cl[0] == 'closure' and ctx.f.body(cl[1]) is not None:
                cb = ctx.f.body(cl[1])
                res.touch(cb)
                cs = Sym(cb)
                cs.run()
                cps = cs.complete_paths()
                if len(cps) == 1 and not cps[0].conds:
                    r = strip_transparent(cps[0].ret)
                    if isinstance(r, tuple) and r[0] == 'un' and r[1] == 'Not':
                        inner = strip_transparent(r[2])
                        if inner[0] == 'call' and inner[1].split('::')[-1] == 'contains':
                            cap = strip_transparent(inner[2][0])
                            elem = strip_transparent(inner[2][1])
                            # the receiver is a captured variable (or a field of a captured `self`): read it with the captured
                            # values substituted and name it by its root and field path
                            if is_param(root_of(elem)) and root_of(elem)[1] == 2 and not field_chain(elem):
                                try:
                                    _b2, cs2 = lib.closure_sym(ctx, cl, res)
                                    c2 = cs2.complete_paths()
                                    r2 = strip_transparent(c2[0].ret) if len(c2) == 1 else None
                                    rc = strip_transparent(strip_transparent(r2[2])[2][0]) if r2 is not None and r2[0] == 'un' else None
                                    if rc is not None and is_param(root_of(rc)) and field_chain(rc):
                                        sig = ('not-in', '%s.%s' % (root_of(rc)[2], '.'.join(field_chain(rc))))
                                except (Lost, IndexError, TypeError):
                                    pass
            preds.append(sig)
        else:
            preds.append(('other', st[0]))
    return src, preds


def _min_loop_guard(ctx, res, b, s, p, pick):
    from . import panics
    guard = None
    for c in p.conds:
        l = literal(c)
        if l[0] == 'lt' and l[3] is True and isinstance(l[1], tuple) and l[1] and l[1][0] == 'loopvar':
            guard = l
    if guard is None:
        return False, None
    X = guard[1]
    D = strip_transparent(guard[2])
    s.loop_info()
    comp = s._loop_of_head.get(X[3])
    if not comp:
        return False, 'the running minimum is not loop-carried'
    ds = panics.defs_of(b, X[1])
    init = [d for d in ds if d[2] not in comp]
    steps = [d for d in ds if d[2] in comp]
    if len(init) != 1 or not steps:
        return False, 'the running minimum has no single initial value'
    # initial value = the distance to beat (the value it is later compared with)
    pre = [q for q in s.paths if init[0][2] in q.blocks]
    iv = init[0][1]
    if not (init[0][0] == 'assign' and iv['k'] == 'use'):
        return False, 'the running minimum does not start from the distance to beat'
    # every assignment inside the loop happens on an iteration whose node was tested to be un-requested
    src = None
    srcs = set()
    for q in s.paths:
        if X[3] not in q.blocks:
            continue
        hit = [d for d in steps if d[2] in q.blocks]
        if not hit:
            continue
        order = {bb: i for i, bb in enumerate(q.blocks)}
        unreq = False
        for c in q.conds:
            l = literal(c)
            if l[0] == 'bool' and l[3] is False and isinstance(l[1], tuple) and l[1][0] == 'call' and l[1][1].split('::')[-1] == 'contains' \
                    and self_field(l[1][2][0], 'requested_nodes') and find_calls(l[1][2][1], '::next') and c[2] in comp and order.get(c[2], 0) < order.get(hit[0][2], 0):
                unreq = True
                nx = find_calls(l[1][2][1], '::next')[0]
                it = strip_transparent(nx[2][0])
                while isinstance(it, tuple) and it and it[0] == 'call' and it[1].split('::')[-1] in ('into_iter', 'iter', 'deref'):
                    it = strip_transparent(it[2][0])
                src = it
                srcs.add(fmt(strip_transparent(it)))
        if not unreq:
            # .. or the loop already runs over `nodes.iter().filter(|n| !requested.contains(n))`
            nxs = [literal(c)[1] for c in q.conds if c[2] in comp and literal(c)[0] == 'variant' and isinstance(literal(c)[1], tuple) and literal(c)[1][0] == 'call' and literal(c)[1][1].split('::')[-1] == 'next']
            if nxs:
                it = strip_transparent(nxs[0][2][0])
                while isinstance(it, tuple) and it and it[0] == 'call' and it[1].split('::')[-1] == 'into_iter':
                    it = strip_transparent(it[2][0])
                dom = _iter_domain(ctx, res, it)
                if dom[0] is not None and any(x[0] == 'not-in' and 'requested_nodes' in x[1] for x in dom[1]):
                    unreq = True
                    srcs.add(fmt(dom[0]))
        if not unreq:
            return False, 'the running minimum is lowered for a node that was not tested against requested_nodes'
    # the initial value is what the minimum is compared with
    init_ok = False
    for q in s.paths:
        if init[0][2] in q.blocks and X[3] in q.blocks:
            init_ok = True
            break
    d_pick = _iter_domain(ctx, res, pick[2][0])
    # (the list is msg.nodes_v4 or msg.nodes_v6 depending on the socket family: the loop and the pick use the same local)
    same_src = d_pick[0] is not None and fmt(d_pick[0]) in srcs
    sub = all(x[0] == 'not-in' and 'requested_nodes' in x[1] for x in d_pick[1])
    if not (same_src and sub and init_ok):
        return False, 'minimum over %s but the round is picked from %s %s' % (fmt(src)[:60] if src is not None else None, fmt(d_pick[0])[:60], d_pick[1])
    # D must be the initial value: the init statement copies the local that holds D
    return True, ''


def rule_initial_pick(ctx, res):
    """SEED: a search starts from the MAX_BUCKET_SIZE closest *good* contacts: the candidate list is filled from
    `closest_nodes(target).filter(status == Good).take(8)` - the cut-off counts good nodes (applied after the filter), so
    that questionable contacts in front of the good ones cannot starve the search of its starting points."""
    from .c05 import pipeline
    from .c10 import status_atom
    b = ctx.co('action::lookup::TableLookup::new')
    res.touch(b)
    s = Sym(b)
    s.run(env=lib.coroutine_param_env(b))
    res.paths += len(s.paths)
    ok = True
    n = 0
    why = ''
    k = ctx.f.const_value('bucket::MAX_BUCKET_SIZE')
    for p in s.paths:
        for e in p.effects:
            if not (e[0] == 'call' and e[1] == 'action::lookup::insert_sorted_node'):
                continue
            n += 1
            nx = find_calls(e[2][2] if len(e[2]) > 2 else e[2][-1], '::next') or [x for a in e[2] for x in find_calls(a, '::next')]
            if not nx:
                ok, why = False, 'the inserted node is not drawn from an iterator'
                continue
            it = strip_transparent(nx[0][2][0])
            while isinstance(it, tuple) and it and it[0] == 'call' and it[1].split('::')[-1] == 'into_iter':
                it = strip_transparent(it[2][0])
            pl = pipeline(it)
            stages = [x for x in pl if x[0] not in ('iter', 'into_iter', 'copied', 'cloned')]
            names = [x[0] for x in stages]
            src = strip_transparent(stages[0][1]) if stages and stages[0][0] == 'src' else None
            if not (src and src[0] == 'call' and src[1] == 'table::RoutingTable::closest_nodes' and len(names) >= 3 and names[-1] == 'take' and all(x == 'filter' for x in names[1:-1])):
                ok, why = False, 'initial candidates are not closest_nodes(..).filter(..).take(..): %s' % names
                continue
            if term_int(stages[-1][1]) != k or k != 8:
                ok, why = False, 'the cut-off is not MAX_BUCKET_SIZE'
            tgt = strip_transparent(src[2][1])
            if not (is_param(tgt, 'target_id') or field_chain(tgt)[-1:] == ['target_id']):
                ok, why = False, 'closest_nodes is not asked for the searched id'
            good = False
            for st in stages[1:-1]:
                cl = st[1]
                if isinstance(cl, tuple) and cl and cl[0] == 'closure' and ctx.f.body(cl[1]) is not None:
                    cb = ctx.f.body(cl[1])
                    res.touch(cb)
                    cs = Sym(cb)
                    cs.run()
                    try:
                        tab = lib.bool_table(cs.complete_paths(), lambda lit, c: (('S', status_atom(ctx, lit, lambda call: True)) if status_atom(ctx, lit, lambda call: True) is not None else None))
                        bad, _n = tab.compare({'S': ['Good', 'Questionable', 'Bad']}, lambda v: v['S'] == 'Good')
                        good = good or not bad
                    except Lost:
                        pass
            if not good:
                ok, why = False, 'no filter keeps exactly the good contacts'
    res.check(ok and n >= 1, 'FLOW', b.path, 'a search is seeded with the first MAX_BUCKET_SIZE (8) *good* contacts in closest-first order: closest_nodes(target).filter(status == Good).take(8), the cut-off applied after the filter',
              detail=why, key='initial-pick')


def rule_initial_marks(ctx, res):
    """MARK: a candidate is flagged "requested" exactly when it is put into a slot of the first round.  The end-game asks every
    candidate whose flag is false: a candidate flagged without having been handed to the round is never asked at all."""
    fn = 'action::lookup::pick_initial_nodes'
    b = ctx.body(fn)
    res.touch(b)
    s = Sym(b)
    s.run()
    res.paths += len(s.paths)
    ok = True
    why = ''
    n = 0
    for p in s.paths:
        ws = [e for e in p.effects if e[0] == 'write']
        if p.end != 'loop':
            if ws:
                ok, why = False, 'a write outside the slot loop'
            continue
        nx = [literal(c) for c in p.conds if literal(c)[0] == 'variant' and isinstance(literal(c)[1], tuple) and literal(c)[1][0] == 'call' and literal(c)[1][1].split('::')[-1] == 'next' and option_is_some(literal(c)[2])]
        if len(nx) != 1:
            ok, why = False, 'the slot loop is not driven by one iterator'
            continue
        n += 1
        elem = ('field', ('downcast', nx[0][1], 'Some'), '0')
        z = find_calls(nx[0][1], '::zip')
        if not z:
            ok, why = False, 'candidates and slots are not walked in lock step (zip)'
            continue
        # which side of the pair is the candidate, which the slot
        left, right = strip_transparent(z[0][2][0]), z[0][2][1]
        cand_side, slot_side = ('0', '1') if (is_param(root_of(left), 'sorted_nodes') or is_param(left, 'sorted_nodes')) else ('1', '0')
        cand_iter = z[0][2][0] if cand_side == '0' else z[0][2][1]
        # the candidate iterator has no side effects of its own (a marking closure inside it would run for a candidate that
        # gets no slot, because zip fetches from its left side first)
        for x in lib.term_walk(cand_iter):
            if isinstance(x, tuple) and len(x) == 3 and x[0] == 'closure' and ctx.f.body(x[1]) is not None:
                cs = Sym(ctx.f.body(x[1]))
                cs.run()
                if any(e[0] == 'write' for q in cs.paths for e in q.effects):
                    ok, why = False, 'the candidate iterator marks candidates itself (closure %s)' % x[1].split('::')[-1]
        got = set()
        for e in ws:
            tgt = strip_transparent(e[1])
            fc = field_chain(tgt)
            if not any(y == elem for y in lib.term_walk(tgt)):
                ok, why = False, 'a write to something else than the current pair'
                continue
            tail = tuple(fc[-2:])
            if tail == (cand_side, '2') and term_int(e[2]) == 1:
                got.add('flag')
            elif tail == (slot_side, '1') and term_int(e[2]) == 1:
                got.add('used')
            elif tail == (slot_side, '0') and tuple(field_chain(strip_transparent(e[2]))[-2:]) == (cand_side, '1') and any(y == elem for y in lib.term_walk(e[2])):
                got.add('handle')
            else:
                ok, why = False, 'unexpected write %s := %s' % (fmt(tgt)[:50], fmt(e[2])[:40])
        if got != {'flag', 'used', 'handle'}:
            ok, why = False, why or 'an iteration does not do all of: slot.handle = candidate, slot.used = true, candidate.requested = true (%s)' % sorted(got)
    res.check(ok and n >= 1, 'PAIR', fn, 'each iteration stores the candidate in the slot, marks the slot used and flags the candidate as requested - all three or none, and nowhere else',
              detail=why, key='initial-marks')
    # no other place writes the flag directly
    writers = {}
    for body in ctx.f.body_list:
        if body.kind == 'stolen':
            continue
        for blk in body.blocks:
            for st in blk['stmts']:
                if st['k'] == 'assign' and st['place']['p']:
                    last = st['place']['p'][-1]
                    if isinstance(last, dict) and last.get('f') == 2 and 'node::NodeHandle, bool)' in str(last.get('bt')):
                        writers[body.path] = writers.get(body.path, 0) + 1
    res.check(set(writers) <= {fn} and writers, 'WHO', fn, 'the requested flag of a candidate is assigned in place only by the first-round pick', detail=str(writers), key='flag-writers')


def rule_round_nonempty(ctx, res):
    """ROUND-NONEMPTY: an iterative round is started only with at least one node to query.

    start_request_round wipes the whole outstanding set when it sent nothing (meant for send failures).  In
    recv_response the round is started when `fold(D, dist_to_beat) < dist_to_beat`; a fold over an empty
    domain returns its initial value, so D is non-empty on that branch.  The nodes picked for the round
    must be drawn from the same domain D (same list, same filters): otherwise "got closer" can hold
    while nothing is left to query, the round sends nothing, and every in-flight query of the search is
    forgotten (answers within 1.5 s are then dropped: C04; their peers and tokens are lost: C02)."""
    b, s = sym_of(ctx, res, RECV_RESPONSE)
    n = 0
    ok = True
    why = ''
    for p in s.paths:
        picks = [e for e in p.effects if e[0] == 'call' and e[1] == 'action::lookup::pick_iterate_nodes']
        if not picks:
            continue
        folds = []
        for c in p.conds:
            l = literal(c)
            if l[0] == 'lt' and l[3] is True and isinstance(l[1], tuple) and l[1][0] == 'call' and l[1][1].endswith('::fold'):
                folds.append(l)
        for e in picks:
            n += 1
            if len(folds) != 1:
                # the same minimum written as a loop: `let mut next = dist_to_beat; for n in nodes { if requested.contains(n) { continue }
                # let d = target ^ n.id; if d < next { next = d } }` followed by `if next < dist_to_beat { pick .. }`
                okl, whyl = _min_loop_guard(ctx, res, b, s, p, e)
                if not okl:
                    ok = False
                    why = whyl or 'no single `fold(..) < dist_to_beat` condition guards the pick'
                continue
            l = folds[0]
            fold = l[1]
            init = strip_transparent(fold[2][1])
            if fmt(init) != fmt(strip_transparent(l[2])):
                ok = False
                why = 'the fold does not start from the distance it is compared with'
                continue
            d_fold = _iter_domain(ctx, res, fold[2][0])
            d_pick = _iter_domain(ctx, res, e[2][0])
            same_src = d_fold[0] is not None and fmt(d_fold[0]) == fmt(d_pick[0])
            # the pick may filter less than the fold (superset), never more
            sub = all(x in d_fold[1] for x in d_pick[1]) and all(x[0] == 'not-in' for x in d_pick[1])
            if not (same_src and sub):
                ok = False
                why = 'fold ranges over %s %s but the round is picked from %s %s' % (fmt(d_fold[0])[:60], d_fold[1], fmt(d_pick[0])[:60], d_pick[1])
    res.check(ok and n >= 1, 'FLOW', b.path, 'the nodes picked for an iterative round come from the very domain whose fold beat the distance (so the round is never empty and the wipe-on-nothing-sent cannot hit in-flight queries)',
              detail=why, key='round-nonempty')
    # the round receives the picked slots that are in use
    nr = 0
    okr = True
    for p in s.paths:
        for e in p.effects:
            if e[0] == 'call' and e[1] == START_ROUND:
                nr += 1
                arg = strip_transparent(e[2][1])
                if not find_calls(arg, 'pick_iterate_nodes'):
                    okr = False
    res.check(okr and nr >= 1, 'FLOW', b.path, 'the iterative round is given the slots filled by pick_iterate_nodes', key='round-from-pick')
    # pick_iterate_nodes / insert_closest_nodes: the first candidate always lands in a slot and marks it used
    ib = ctx.body('action::lookup::insert_closest_nodes')
    res.touch(ib)
    isym = Sym(ib)
    isym.run()
    first = False
    for p in isym.paths:
        # a path that meets an unused slot writes used = true and returns
        lits = [literal(c) for c in p.conds]
        if p.end == 'return' and any(w[0] == 'write' for w in p.effects):
            first = True
    res.check(first, 'FLOW', ib.path, 'insert_closest_nodes places a candidate in the first unused slot (a non-empty candidate set fills at least one slot)', key='pick-fills')
