"""C20 - node ids derived from an IP address satisfy the BEP42 check for that address (partial).

Decides: the BEP42 mask tables per address family and the number of address octets used (4 / 8); the
CRC32-C input is exactly the masked address prefix with the random byte mixed into its first octet;
the same random byte becomes the last byte of the id; id bytes 0..2 derive from that CRC (computed by
crc32c::crc32c_append from 0); the remaining bytes are random. The exact bit placement (shift
amounts, & 0xf8, endianness pick) is NOT decided: only evaluation could settle it, and a term-shape
match would raise alarms on algebraically equal rewrites."""
from . import lib
from .lib import (Sym, Lost, literal, term_int, strip_transparent, field_chain, root_of, is_param, find_calls, fmt, term_walk)

EXPLANATION = __doc__
ASSUMPTIONS = ['crc32c::crc32c_append(0, data) is CRC32-C (Castagnoli) of data', 'bit-exact placement of the 21 CRC bits is outside this check']

V4_MASK = [0x03, 0x0f, 0x3f, 0xff]
V6_MASK = [0x01, 0x03, 0x07, 0x0f, 0x1f, 0x3f, 0x7f, 0xff]




def array_ints(t):
    t = strip_transparent(t)
    if isinstance(t, tuple) and t[0] == 'named' and getattr(lib._TL, 'facts', None) is not None:
        v = lib._TL.facts.const_value(t[1])
        return list(v) if isinstance(v, (list, tuple)) and all(isinstance(x, int) for x in v) else None
    if isinstance(t, tuple) and t[0] == 'array':
        vals = [term_int(x) for x in t[1]]
        return vals if all(v is not None for v in vals) else None
    return None


def base_array(t):
    """strip index / mutated / ref wrappers down to the array local's initial term"""
    while isinstance(t, tuple):
        if t[0] in ('index', 'ref', 'deref', 'cast'):
            t = t[1]
        elif t[0] == 'mutated':
            t = t[1]
        elif t[0] == 'call' and (t[1].endswith('::index') or t[1].endswith('::index_mut')):
            t = t[2][0]
        else:
            break
    return t


def run(ctx, res):
    from . import common
    common.rule_no_addr_canonicalisation(ctx, res)
    fn = 'info_hash::InfoHash::from_ip'
    b = ctx.body(fn)
    res.touch(b)
    s = Sym(b)
    s.run()
    res.paths += len(s.paths)
    fams = {}
    for p in s.paths:
        fam = None
        for c in p.conds:
            rel, a, b2, truth = literal(c)
            if rel == 'variant' and is_param(a, 'ip'):
                fam = {0: 'V4', 1: 'V6'}.get(b2)
        if fam:
            fams.setdefault(fam, []).append(p)
    res.check(set(fams) == {'V4', 'V6'}, 'TABLE', fn, 'both address families are handled', detail=str(sorted(fams)))
    for fam, want_mask, n in (('V4', V4_MASK, 4), ('V6', V6_MASK, 8)):
        paths = fams.get(fam, [])
        rets = [p for p in paths if p.end == 'return']
        ok_copy = ok_mask = ok_rand = ok_crc = ok_id = ok_fill = False
        bad_fixed = False
        why = []
        masks_seen = set()
        for p in paths:
            for e in p.effects:
                # address octets copied: array[..n] <- octets(ip)[..n]
                if e[0] == 'call' and e[1].endswith('copy_from_slice'):
                    dst, src = e[2][0], e[2][1]
                    rng = [x for x in term_walk(dst) if isinstance(x, tuple) and x and x[0] == 'agg' and x[1].startswith('std::ops::Range')]
                    rng2 = [x for x in term_walk(src) if isinstance(x, tuple) and x and x[0] == 'agg' and x[1].startswith('std::ops::Range')]
                    oc = find_calls(src, 'Addr::octets')
                    # destination: array[..n] / array[0..n], or the whole n-byte array; source: octets()[..n], or all octets of an address with n of them
                    natural = 4 if (oc and 'Ipv4Addr' in oc[0][1]) else 16 if oc else None
                    dst_n = term_int(rng[0][2].get('end')) if rng and (rng[0][2].get('start') is None or term_int(rng[0][2].get('start')) == 0) else (8 if not rng and base_array(dst)[0] == 'repeat' and str(base_array(dst)[2]).strip() in ('8', '8_usize') else None)
                    src_n = term_int(rng2[0][2].get('end')) if rng2 and (rng2[0][2].get('start') is None or term_int(rng2[0][2].get('start')) == 0) else (natural if not rng2 else None)
                    if oc and dst_n == n and src_n == n and is_param(root_of(strip_transparent(oc[0][2][0])), 'ip'):
                        ok_copy = True
                # masking loop: arr[i] = arr[i] & MASK[i], i in 0..n
                if e[0] == 'write' and e[1][0] == 'index' and e[2][0] == 'bin' and e[2][1] == 'BitAnd' and p.end == 'loop':
                    m = None
                    for side in (e[2][2], e[2][3]):
                        if side[0] == 'index':
                            vals = array_ints(side[1])
                            if vals is not None:
                                m = vals
                    nx = find_calls(e[1][2], '::next')
                    rng = [x for x in term_walk(nx[0]) if isinstance(x, tuple) and x and x[0] == 'agg' and x[1].startswith('std::ops::Range')] if nx else []
                    if m is not None:
                        masks_seen.add(tuple(m))
                        if m[:n] == want_mask and rng and term_int(rng[0][2].get('start')) == 0 and term_int(rng[0][2].get('end')) == n:
                            ok_mask = True
                # the same masking as `for (octet, m) in arr.iter_mut().zip(MASK).take(n) { *octet &= m }`
                if e[0] == 'write' and p.end == 'loop' and isinstance(e[2], tuple) and e[2][0] == 'bin' and e[2][1] == 'BitAnd':
                    z = find_calls(e[1], '::zip')
                    if z and field_chain(strip_transparent(e[1]))[-2:] == ['0', '0']:
                        sides = [strip_transparent(e[2][2]), strip_transparent(e[2][3])]
                        has_self = any(field_chain(x)[-2:] == ['0', '0'] and find_calls(x, '::zip') == z for x in sides)
                        has_mask = any(field_chain(x)[-2:] == ['0', '1'] and find_calls(x, '::zip') == z for x in sides)
                        m = array_ints(z[0][2][1])
                        tk = find_calls(e[1], '::take')
                        cnt = term_int(strip_transparent(tk[0][2][1])) if tk else None
                        whole = 'repeat' in fmt(z[0][2][0]) and find_calls(z[0][2][0], '::iter_mut')
                        if m is not None:
                            masks_seen.add(tuple(m))
                        if has_self and has_mask and whole and m is not None and m[:n] == want_mask and (cnt == n or (cnt is None and all(v == 0 for v in m[n:]) and len(m) == 8)):
                            ok_mask = True
        # shape 3: copy and mask in one pass, `for ((dst, octet), m) in buf.iter_mut().zip(octets).zip(MASK) { *dst = octet & m }`
        # (zip nesting either way): the pass covers min(8, #octets, #mask) = n slots and leaves the rest of the zeroed buffer 0
        for p in paths:
            if p.end != 'loop':
                continue
            for e in p.effects:
                if e[0] != 'write':
                    continue
                rhs = strip_transparent(e[2])
                if isinstance(rhs, tuple) and rhs[0] == 'call' and rhs[1].split('::')[-1] == 'bitand' and len(rhs[2]) == 2:
                    ops = [strip_transparent(rhs[2][0]), strip_transparent(rhs[2][1])]
                elif isinstance(rhs, tuple) and rhs[0] == 'bin' and rhs[1] == 'BitAnd':
                    ops = [strip_transparent(rhs[2]), strip_transparent(rhs[3])]
                else:
                    continue
                zs = find_calls(e[1], '::zip')
                if not zs:
                    continue
                def leaves(t):
                    t0 = t
                    while isinstance(t0, tuple) and t0 and (t0[0] in ('ref', 'deref', 'cast') or (t0[0] == 'call' and len(t0[2]) == 1 and t0[1].split('::')[-1] in ('into_iter', 'iter', 'copied', 'cloned'))):
                        t0 = t0[1] if t0[0] != 'call' else t0[2][0]
                    if isinstance(t0, tuple) and t0 and t0[0] == 'call' and t0[1].split('::')[-1] == 'zip' and len(t0[2]) == 2:
                        return leaves(t0[2][0]) + leaves(t0[2][1])
                    return [t]
                top = max(zs, key=lambda z: len(fmt(z, -50)))
                lv = leaves(top)
                if len(lv) != 3:
                    continue
                dsts = [x for x in lv if find_calls(x, '::iter_mut') and 'repeat' in fmt(x) and not find_calls(x, '::index')]
                octs = [x for x in lv if find_calls(x, 'Addr::octets') and is_param(root_of(strip_transparent(find_calls(x, 'Addr::octets')[0][2][0])), 'ip')]
                msk = [array_ints(x) for x in lv if array_ints(x) is not None]
                if len(dsts) != 1 or len(octs) != 1 or len(msk) != 1:
                    continue
                natural = 4 if 'Ipv4Addr' in find_calls(octs[0], 'Addr::octets')[0][1] else 16
                m = msk[0]
                masks_seen.add(tuple(m))
                # both operands are components of the loop element other than the destination slot
                same_elem = all(find_calls(o, '::next') and find_calls(o, '::next') == find_calls(e[1], '::next') for o in ops) and fmt(ops[0]) != fmt(ops[1]) \
                    and all(fmt(o) != fmt(strip_transparent(e[1])) for o in ops)
                if same_elem and min(8, natural, len(m)) == n and m[:n] == want_mask:
                    ok_copy = ok_mask = True
        for p in rets:
            R = None
            arr = None
            crc = None
            for e in p.effects:
                if e[0] == 'write' and e[1][0] == 'index' and term_int(e[1][2]) == 0 and e[2][0] == 'bin' and e[2][1] == 'BitOr':
                    rs = find_calls(e[2], 'rand::random')
                    if len(rs) == 1 and base_array(e[1])[0] == 'repeat':
                        R = rs[0]
                        arr = base_array(e[1])
                        ok_rand = True
                if e[0] == 'call' and e[1] == 'crc32c::crc32c_append':
                    data = e[2][1]
                    ix = find_calls(data, '::index')
                    rng = [ix[0][2][1]] if ix and ix[0][2][1][0] == 'agg' and ix[0][2][1][1].startswith('std::ops::Range') else []
                    if term_int(e[2][0]) == 0 and rng and (rng[0][2].get('start') is None or term_int(rng[0][2].get('start')) == 0) and term_int(rng[0][2].get('end')) == n and arr is not None and base_array(data) == arr \
                            and R is not None:
                        crc = ('call', e[1], e[2], e[3])
                        ok_crc = True
            if arr is not None:
                fixed = [term_int(e[1][2]) for e in p.effects if e[0] == 'write' and e[1][0] == 'index' and term_int(e[1][2]) is not None and base_array(e[1]) == arr]
                if fixed != [0]:
                    bad_fixed = True      # the checksum input is touched at a fixed position other than the one OR of the random bits
                    why.append('checksum input written at fixed positions %s' % fixed)
            if crc is not None and R is not None:
                got = {}
                times = {}
                for e in p.effects:
                    if e[0] == 'write' and e[1][0] == 'index' and term_int(e[1][2]) is not None and base_array(e[1])[0] == 'repeat' and base_array(e[1]) != arr:
                        got[term_int(e[1][2])] = e[2]
                        times[term_int(e[1][2])] = times.get(term_int(e[1][2]), 0) + 1
                # each of the four positions is written exactly once and no other fixed position is written (a later
                # overwrite or patch-up of an id byte would make the id differ from what the checks above describe)
                once = set(times) == {0, 1, 2, 19} and all(v == 1 for v in times.values())
                ok_id = once and all(k in got and any(x == crc for x in term_walk(got[k])) for k in (0, 1, 2)) and got.get(19) == R
                if not ok_id:
                    why.append('id bytes: %s' % {k: fmt(v)[:60] for k, v in got.items()})
        # bytes 3..19 random
        for p in paths:
            if p.end == 'loop':
                for e in p.effects:
                    if e[0] == 'write' and find_calls(e[1], '::next') and strip_transparent(e[2])[0] == 'call' and strip_transparent(e[2])[1] == 'rand::random':
                        rng = [x for x in term_walk(e[1]) if isinstance(x, tuple) and x and x[0] == 'agg' and x[1].startswith('std::ops::Range')]
                        if rng and term_int(rng[0][2].get('start')) == 3 and term_int(rng[0][2].get('end')) == 19:
                            ok_fill = True
                        # `let [b0, b1, b2, middle @ .., last] = &mut id;` - the middle of a slice pattern over the 20-byte id
                        import json as _json
                        for x in term_walk(e[1]):
                            if isinstance(x, tuple) and len(x) == 3 and x[0] == 'proj' and isinstance(x[2], str) and x[2].startswith('{"sub"'):
                                d_ = _json.loads(x[2])
                                if d_.get('sub') == [3, 19] and not d_.get('from_end') and base_array(x[1])[0] == 'repeat' and str(base_array(x[1])[2]).strip() in ('20', '20_usize'):
                                    ok_fill = True
        for p in paths:
            for e in p.effects:
                # `id[3..19].fill_with(rand::random)`
                if e[0] == 'call' and e[1] and e[1].split('::')[-1] == 'fill_with' and len(e[2]) == 2:
                    rng = [x for x in term_walk(e[2][0]) if isinstance(x, tuple) and x and x[0] == 'agg' and x[1].startswith('std::ops::Range')]
                    f_ = strip_transparent(e[2][1])
                    if rng and term_int(rng[0][2].get('start')) == 3 and term_int(rng[0][2].get('end')) == 19 and isinstance(f_, tuple) and f_[0] == 'fn' and f_[1] == 'rand::random' \
                            and base_array(e[2][0])[0] == 'repeat' and str(base_array(e[2][0])[2]).strip() in ('20', '20_usize'):
                        ok_fill = True
        res.check(ok_copy, 'TABLE', fn + '/' + fam, 'the first %d address octets are the CRC input prefix' % n, key='octets:' + fam)
        res.check(ok_mask, 'TABLE', fn + '/' + fam, 'the %s mask table equals BEP42 %s and is applied to octets 0..%d' % (fam, ['%02x' % x for x in want_mask], n), detail=str(sorted(masks_seen)), key='mask:' + fam)
        # one computation for every address of the family: each way out goes through the checksum, and nothing but the address
        # family (and loop control) decides the path - no class of addresses gets an id made some other way
        stray = []
        for p in rets:
            if not any(e[0] == 'call' and e[1] == 'crc32c::crc32c_append' for e in p.effects):
                stray.append('an exit without the checksum')
            for c in p.conds:
                l = literal(c)
                if l[0] == 'variant' and (is_param(l[1], 'ip') or (isinstance(l[1], tuple) and l[1][0] == 'call' and l[1][1].split('::')[-1] == 'next')):
                    continue
                if l[0] in ('bool', 'lt', 'eq') and term_int(l[1]) is not None and (not isinstance(l[2], tuple) or term_int(l[2]) is not None):
                    continue
                stray.append('decided by %s' % fmt(l[1])[:60])
        res.check(not stray and rets, 'FLOW', fn + '/' + fam, 'every %s address takes the one BEP42 computation (no exit without the checksum, no branch on the address value)' % fam,
                  detail='; '.join(sorted(set(stray))[:3]), key='single-computation:' + fam)
        res.check(ok_rand and not bad_fixed, 'FLOW', fn + '/' + fam, 'one random byte is mixed (OR) into the first masked octet', key='rand-mix:' + fam)
        res.check(ok_crc, 'FLOW', fn + '/' + fam, 'crc32c_append(0, masked_prefix[0..%d]) over the array holding the masked, random-mixed octets' % n, key='crc-input:' + fam)
        res.check(ok_id, 'FLOW', fn + '/' + fam, 'id[0], id[1], id[2] derive from that CRC and id[19] is the same random byte that went into the CRC input', detail='; '.join(why[:1]), key='id-bytes:' + fam)
        res.check(ok_fill, 'FLOW', fn + '/' + fam, 'id[3..19] are filled with random bytes', key='fill:' + fam)
