"""C04 - every search ends, neither early nor never (partial: premises).

Decides: query <-> timeout pairing, the end-game timer is armed on every path into the end-game,
Completed is constructed only when not in the end-game and nothing is outstanding, the invariant
"a stored search is in its end-game or has an outstanding query" is preserved by every accepted
event, Completed always leads to removal + finishing, the end-game timer always completes, a cancel
never touches the end-game timer, timers fire in deadline order, both timeouts are 1.5 s, and the
stream's only sender moves into the search. The numeric bounds (3 s, 1.5 s * n + 3 s) and absence
of unbounded re-iteration are NOT decided."""
from . import common, lookup

EXPLANATION = __doc__
ASSUMPTIONS = ['tokio time drives Timer::poll_next; BTreeMap iterates keys in order', 'dropping the last UnboundedSender closes the stream']


def run(ctx, res):
    lookup.rule_pair_timeout(ctx, res)
    lookup.rule_endgame_armed(ctx, res)
    lookup.rule_not_early(ctx, res)
    lookup.rule_completion_handled(ctx, res)
    lookup.rule_finish_once(ctx, res)
    lookup.rule_cancel_safe(ctx, res)
    lookup.rule_timer_order(ctx, res)
    lookup.rule_shutdown_stream(ctx, res)
    lookup.rule_round_nonempty(ctx, res)
    # a search that knows no good node starts nothing and closes at once: the seeds are exactly the good contacts
    lookup.rule_initial_pick(ctx, res)
    common.rule_timer_cancel(ctx, res)
