"""C09 - find_node/get_peers list up to 8 distinct live table nodes, nearest bucket first (partial).

Decides: each node list of a reply is closest_nodes(query target).filter(family).take(8) (so: only
nodes of the table, of the requested family, at most 8); every node the enumeration yields passed the
live-node predicate (Good or Questionable), both for sorted buckets and for nodes handed out of the
unsorted last bucket, each of which is handed out at most once (flag set when yielded) and only
under its ideal bucket index; the walk starts at the bucket of the shared-prefix length of local id
and target; every bucket index it moves to is in bounds. Exactly-once enumeration of all buckets,
the alternating order and "exactly min(8, n)" are NOT decided."""
from . import lib, common, c05, c10
from .lib import (Sym, Table, BOOL, Lost, literal, term_int, strip_transparent, is_field_of_param, option_is_some,
                  agg_variant, field_chain, root_of, is_param, find_calls, fmt)

EXPLANATION = __doc__
ASSUMPTIONS = ['Iterator::filter / take / find have std semantics', 'completeness and order of the bucket walk are outside this check']

NEXT = "<table::ClosestNodes<'a> as std::iter::Iterator>::next"


def closure_paths(ctx, res, path):
    b = ctx.body(path)
    res.touch(b)
    s = Sym(b)
    s.run()
    return s.complete_paths()


def rule_enumeration(ctx, res):
    b = ctx.body(NEXT)
    res.touch(b)
    s = Sym(b)
    s.run()
    res.paths += len(s.paths)
    kinds = set()
    ok = True
    for p in s.complete_paths():
        r = p.ret
        if agg_variant(r) == 'None' or (r[0] == 'call' and r[1] == NEXT):
            continue
        if agg_variant(r) != 'Some':
            ok = False
            continue
        v = strip_transparent(r[2].get('0'))
        nx = [x for x in find_calls(v, '::next') if is_field_of_param(x[2][0], 'self', ['current_iter', '0']) or 'current_iter' in fmt(x[2][0])]
        fd = [x for x in find_calls(v, '::find') if x[1].split('::')[-1] == 'find']
        if nx and field_chain(v)[-1:] == ['0']:
            kinds.add('bucket')
        elif fd and field_chain(v)[-2:] == ['0', '1']:
            kinds.add('assorted')
            f = fd[0]
            # the entry handed out satisfies, jointly over any `.filter(..)` stages and the `find` predicate:
            #   live (is_good_node)  AND  ideal index == current index  AND  not handed out before
            stages = [f[2][1]]
            src = strip_transparent(f[2][0])
            while isinstance(src, tuple) and src and src[0] == 'call' and src[1].split('::')[-1] == 'filter':
                stages.append(src[2][1])
                src = strip_transparent(src[2][0])
            okf = isinstance(src, tuple) and src[0] == 'call' and src[1].split('::')[-1] == 'iter_mut' and 'assorted_nodes' in str(src)

            def classify(lit, c):
                rel, a, b2, truth = lit
                if rel == 'eq':
                    names = {tuple(field_chain(a))[-1:], tuple(field_chain(b2))[-1:]}
                    if (('0',) in names and any('current_index' in str(x) or 'bucket_index' in str(x) for x in (a, b2))):
                        return ('same_bucket', truth)
                if rel == 'bool' and field_chain(a)[-1:] == ['2']:
                    return ('handed_out', truth)
                if rel == 'bool' and isinstance(a, tuple) and a[0] == 'call' and a[1] == 'table::is_good_node' and field_chain(strip_transparent(a[2][0]))[-1:] == ['1']:
                    return ('live', truth)
                raise Lost('assorted find predicate: unrecognised condition')

            bad = []
            try:
                tabs = []
                for cl in stages:
                    if not (isinstance(cl, tuple) and cl[0] == 'closure'):
                        raise Lost('predicate is not a closure')
                    cb, cs = lib.closure_sym(ctx, cl, res)
                    tabs.append(lib.bool_table(cs.complete_paths(), classify))
                for live in BOOL:
                    for same in BOOL:
                        for handed in BOOL:
                            outs = []
                            for t in tabs:
                                got = t.lookup({'live': live, 'same_bucket': same, 'handed_out': handed})
                                if not got or len(set(got)) != 1:
                                    raise Lost('undecided')
                                outs.append(got[0])
                            if all(outs) != (live and same and not handed):
                                bad.append((live, same, handed))
            except Lost:
                bad = ['unclassified']
            marked = any(e[0] == 'write' and field_chain(e[1])[-1:] == ['2'] and term_int(e[2]) == 1 and find_calls(e[1], '::find') for e in p.effects)
            if not (okf and not bad and marked):
                ok = False
        elif field_chain(v)[-2:] == ['0', '1'] and find_calls(v, '::next') and 'assorted_nodes' in str(v):
            # the same hand-out written as a loop over the last-bucket entries
            kinds.add('assorted')
            nxc = find_calls(v, '::next')[0]
            elem = ('field', ('downcast', nxc, 'Some'), '0')
            facts_ = {}
            for c in p.conds:
                rel, a, b2, truth = literal(c)
                if rel == 'bool' and isinstance(a, tuple) and a[0] == 'call' and a[1] == 'table::is_good_node' and find_calls(a, '::next') == [nxc] and field_chain(strip_transparent(a[2][0]))[-1:] == ['1']:
                    facts_['live'] = truth
                if rel == 'bool' and field_chain(strip_transparent(a))[-1:] == ['2'] and find_calls(a, '::next') == [nxc]:
                    facts_['handed_out'] = truth
                if rel == 'eq':
                    for x, y in ((a, b2), (b2, a)):
                        if field_chain(strip_transparent(x))[-1:] == ['0'] and find_calls(x, '::next') == [nxc] and ('current_index' in str(y) or 'bucket_index' in str(y)):
                            facts_['same_bucket'] = truth
            marked = any(e[0] == 'write' and field_chain(e[1])[-1:] == ['2'] and term_int(e[2]) == 1 and find_calls(e[1], '::next') == [nxc] for e in p.effects)
            if not (facts_ == {'live': True, 'same_bucket': True, 'handed_out': False} and marked):
                ok = False
        else:
            ok = False
    res.check(ok and kinds == {'bucket', 'assorted'}, 'WHO', NEXT, 'a node is yielded either by the live-filtered iterator of a sorted bucket, or from the unsorted last bucket: live, under its ideal index == current index, not handed out before, and then marked',
              site=b.span, detail=str(sorted(kinds)))
    # bucket_iterator: get(index) over the sorted buckets, mapped to good_node_filter(bucket.iter())
    bi = ctx.body('table::bucket_iterator')
    res.touch(bi)
    bs = Sym(bi)
    bs.run()
    okb = bool(bs.complete_paths())
    for p in bs.complete_paths():
        r = p.ret
        if agg_variant(r) == 'None':
            continue          # no bucket at that index
        if agg_variant(r) == 'Some':
            # (normal form: `buckets.get(index).map(|b| ..)` is read as the match it stands for)
            v = strip_transparent(r[2].get('0'))
            g = find_calls(v, '::get')
            if not (v[0] == 'call' and v[1] == 'table::good_node_filter' and find_calls(v, 'Bucket::iter') and g and is_param(strip_transparent(g[0][2][1]), 'index')
                    and field_chain(strip_transparent(find_calls(v, 'Bucket::iter')[0][2][0]))[-1:] == ['0']):
                okb = False
            continue
        if not (r[0] == 'call' and r[1].endswith('Option::<T>::map') and find_calls(r, '::get') and is_param(strip_transparent(find_calls(r, '::get')[0][2][1]), 'index')):
            okb = False
            continue
        cl = r[2][1]
        cps = closure_paths(ctx, res, cl[1]) if cl[0] == 'closure' else []
        if not (len(cps) == 1 and cps[0].ret[0] == 'call' and cps[0].ret[1] == 'table::good_node_filter' and find_calls(cps[0].ret, 'Bucket::iter')):
            okb = False
    gf = ctx.body('table::good_node_filter')
    res.touch(gf)
    gs = Sym(gf)
    gs.run()
    okg = all(p.ret[0] == 'call' and p.ret[1].endswith('Iterator::filter') and is_param(strip_transparent(p.ret[2][0]), 'iter') and strip_transparent(p.ret[2][1])[0] == 'fn' and strip_transparent(p.ret[2][1])[1] == 'table::is_good_node'
              for p in gs.complete_paths()) and gs.complete_paths()
    res.check(okb and okg, 'FLOW', 'table::bucket_iterator', 'the iterator of a sorted bucket is bucket.iter().filter(is_good_node)')
    c10.rule_good_filters(ctx, lib.Filtered(res, r'^live-node predicate'))
    # constructor: start index from the shared prefix; first iterator for that index; assorted nodes precomputed with the local id
    nb = ctx.body("table::ClosestNodes::<'a>::new")
    res.touch(nb)
    ns = Sym(nb)
    ns.run()
    okn = bool(ns.complete_paths())
    for p in ns.complete_paths():
        f = p.ret[2]
        st = strip_transparent(f.get('start_index'))
        good = (st[0] == 'call' and st[1] == 'table::leading_bit_count' and is_param(strip_transparent(st[2][0]), 'self_node_id') and is_param(strip_transparent(st[2][1]), 'other_node_id')
                and strip_transparent(f.get('current_index')) == st
                and strip_transparent(f.get('current_iter'))[1] == 'table::bucket_iterator' and strip_transparent(strip_transparent(f.get('current_iter'))[2][1]) == st
                and strip_transparent(f.get('assorted_nodes'))[1] == 'table::precompute_assorted_nodes' and is_param(strip_transparent(strip_transparent(f.get('assorted_nodes'))[2][1]), 'self_node_id')
                and is_param(strip_transparent(f.get('buckets')), 'buckets'))
        okn = okn and bool(good)
    res.check(okn, 'FLOW', nb.path, 'the walk starts at bucket leading_bit_count(local id, target), with the last-bucket nodes indexed by their own shared prefix with the local id')
    cb = ctx.body('table::RoutingTable::closest_nodes')
    res.touch(cb)
    cs = Sym(cb)
    cs.run()
    okc = all(p.ret[0] == 'call' and p.ret[1] == nb.path and is_field_of_param(strip_transparent(p.ret[2][0]), 'self', 'buckets') and is_field_of_param(p.ret[2][1], 'self', 'node_id') and is_param(strip_transparent(p.ret[2][2]), 'node_id')
              for p in cs.complete_paths()) and cs.complete_paths()
    res.check(okc, 'FLOW', cb.path, 'closest_nodes(target) enumerates this table\'s buckets relative to this table\'s id')
    lb = ctx.body('table::leading_bit_count')
    ls = Sym(lb)
    ls.run()
    okl = all(find_calls(p.ret, 'leading_zeros') and find_calls(p.ret, 'bitxor') for p in ls.complete_paths()) and ls.complete_paths()
    res.check(okl, 'TABLE', lb.path, 'shared prefix length = leading zeros of the XOR of the two ids')
    # precompute: (leading_bit_count(local id, node.id), node, false) per node of the last bucket
    pb = ctx.body('table::precompute_assorted_nodes')
    res.touch(pb)
    ps = Sym(pb)
    ps.run()
    okp = False
    for p in ps.paths:
        if p.end == 'loop':
            for e in lib.writes_of(p):
                v = e[2]
                if v[0] == 'agg' and v[1] == 'tuple':
                    i0 = strip_transparent(v[2].get('0'))
                    okp = (i0[0] == 'call' and i0[1] == 'table::leading_bit_count' and is_param(strip_transparent(i0[2][0]), 'self_node_id') and find_calls(i0[2][1], 'Node::id')
                           and term_int(v[2].get('2')) == 0 and find_calls(v[2].get('1'), '::next'))
    res.check(okp, 'TABLE', pb.path, 'each node of the unsorted last bucket is indexed by its own shared prefix with the local id and starts not-handed-out')


def rule_partition(ctx, res):
    """sorted buckets and the unsorted last bucket partition the table: both helpers branch on the same
    predicate len == MAX_BUCKETS (sibling agreement), so no bucket is enumerated by both"""
    maxb = ctx.f.const_value('table::MAX_BUCKETS')

    def full_lit(lit):
        rel, a, b2, truth = lit
        if rel == 'eq':
            for x, y in ((a, b2), (b2, a)):
                if isinstance(x, tuple) and x[0] == 'call' and x[1].endswith('::len') and is_param(strip_transparent(x[2][0]), 'buckets') and term_int(y) == maxb:
                    return truth
        return None

    bi = ctx.body('table::bucket_iterator')
    bs = Sym(bi)
    bs.run()
    got = {}
    for p in bs.complete_paths():
        f = [full_lit(literal(c)) for c in p.conds if full_lit(literal(c)) is not None]
        g = find_calls(p.ret, '::get')
        if not g:
            # the lookup itself is the condition of the match the `map` stands for
            g = [x for c in p.conds for x in find_calls(literal(c)[1], '::get') if literal(c)[0] == 'variant']
        src = g[0][2][0] if g else None
        while isinstance(src, tuple) and src[0] in ('ref', 'deref'):
            src = src[1]
        kind = '?'
        if is_param(src, 'buckets'):
            kind = 'all'
        elif isinstance(src, tuple) and src[0] == 'call' and src[1].endswith('::index'):
            rng = src[2][1]
            e = rng[2].get('end') if rng[0] == 'agg' and rng[1].startswith('std::ops::RangeTo') else None
            if e is not None and e[0] == 'bin' and e[1] == 'Sub' and term_int(e[3]) == 1 and find_calls(e[2], '::len'):
                kind = 'all-but-last'
        got[f[-1] if f else None] = kind
    res.check(got == {True: 'all', False: 'all-but-last'}, 'TABLE', bi.path, 'sorted buckets = all buckets when the table is fully split (160), otherwise all but the last', detail=str(got))
    pb = ctx.body('table::precompute_assorted_nodes')
    ps = Sym(pb)
    ps.run()
    got = {}
    for p in ps.paths:
        if p.end not in ('return', 'loop'):
            continue
        f = [full_lit(literal(c)) for c in p.conds if full_lit(literal(c)) is not None]
        k = f[-1] if f else None
        touched = [e for e in p.effects if e[0] == 'call' and e[1] == 'bucket::Bucket::iter']
        if not touched:
            got.setdefault(k, set()).add('none' if (p.end == 'return' and agg_variant(p.ret) == 'None') else 'other')
        else:
            a = touched[0][2][0]
            while isinstance(a, tuple) and a[0] in ('ref', 'deref'):
                a = a[1]
            last = a[0] == 'index' and is_param(root_of(a[1]), 'buckets') and a[2][0] == 'bin' and a[2][1] == 'Sub' and term_int(a[2][3]) == 1 and bool(find_calls(a[2][2], '::len'))
            got.setdefault(k, set()).add('last' if last else 'other')
    res.check(got == {True: {'none'}, False: {'last', 'none'}} or got == {True: {'none'}, False: {'last'}}, 'TABLE', pb.path,
              'unsorted nodes = none when the table is fully split, otherwise the nodes of the last bucket (same predicate as the sorted-bucket iterator: no bucket is enumerated twice)', detail=str(got))


def rule_next_index_in_bounds(ctx, res):
    b = ctx.body('table::next_bucket_index')
    res.touch(b)
    s = Sym(b)
    s.run()
    res.paths += len(s.paths)
    ok = bool(s.complete_paths())
    n = 0
    for p in s.complete_paths():
        r = p.ret
        if agg_variant(r) == 'None':
            continue
        if agg_variant(r) != 'Some':
            # an Option handed back as it is (`preferred` / `fallback`): it must have passed the bounds test on this path
            n += 1
            ro = strip_transparent(r)
            if not any(literal(c)[0] == 'bool' and literal(c)[3] is True and literal(c)[1][0] == 'call' and literal(c)[1][1] == 'table::index_is_in_bounds'
                       and is_param(strip_transparent(literal(c)[1][2][0]), 'num_buckets') and strip_transparent(literal(c)[1][2][1]) == ro for c in p.conds):
                ok = False
            continue
        n += 1
        v = strip_transparent(r[2].get('0'))
        # Some(x.unwrap()) where index_is_in_bounds(num_buckets, x) was true
        inner = v[2][0] if v[0] == 'call' and v[1].endswith('::unwrap') else None
        guarded = False
        for c in p.conds:
            rel, a, b2, truth = literal(c)
            if rel == 'bool' and truth is True and a[0] == 'call' and a[1] == 'table::index_is_in_bounds' and is_param(strip_transparent(a[2][0]), 'num_buckets') and inner is not None and strip_transparent(a[2][1]) == strip_transparent(inner):
                guarded = True
            # the bounds test itself, however it is packaged: `index < num_buckets` held for the index that is returned
            if rel == 'lt' and truth is True and is_param(strip_transparent(b2), 'num_buckets') and strip_transparent(a) == v:
                guarded = True
        if not guarded:
            ok = False
    res.check(ok and n >= 4, 'DOM', b.path, 'every bucket index the walk moves to passed index_is_in_bounds(num_buckets, ..)', detail='%d Some-returns' % n)
    # index_is_in_bounds (when it exists as a function) is `index is Some and < length`
    if ctx.f.body('table::index_is_in_bounds') is None:
        return
    ib = ctx.body('table::index_is_in_bounds')
    res.touch(ib)
    isym = Sym(ib)
    isym.run()

    def classify(lit, c):
        rel, a, b2, truth = lit
        if rel == 'variant' and is_param(a, 'checked_index'):
            return ('some', option_is_some(b2))
        if rel == 'lt' and is_param(strip_transparent(b2), 'length'):
            return ('lt', truth)
        raise Lost('index_is_in_bounds: unrecognised condition')

    tab = lib.bool_table(isym.complete_paths(), classify)
    bad, n = tab.compare({'some': BOOL, 'lt': BOOL}, lambda v: v['some'] and v['lt'], consistent=lambda v: v['some'] or not v['lt'])
    res.check(not bad, 'TABLE', ib.path, 'in bounds <=> Some(i) with i < length', detail=str(bad[:2]))


def run(ctx, res):
    c05.rule_families(ctx, res)
    d = common.Dispatcher(ctx)
    c05.rule_one_reply(ctx, lib.Filtered(res, r'^nodes-src'), d)      # nodes/nodes6 of find_node and get_peers replies = find_closest_nodes(query target, query want)
    rule_enumeration(ctx, res)
    rule_partition(ctx, res)
    rule_next_index_in_bounds(ctx, res)
