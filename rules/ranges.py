"""A small interval prover for panic-capable sites (checked arithmetic, bounds, split_at / range indexing).

Flow-insensitive over definitions (every reaching definition of a local is considered), refined by the
comparisons that dominate the site through exactly one switch edge (`if x < c`, `match x { a..=b => .. }`,
`match slice.len() { 6 => .. }`).  It only ever answers "provably cannot fire" or "don't know"; a site it
cannot prove goes to the reviewed table as before."""
import re, json
from .facts import callee
from . import lib

U = {'u8': 2**8 - 1, 'u16': 2**16 - 1, 'u32': 2**32 - 1, 'u64': 2**64 - 1, 'u128': 2**128 - 1, 'usize': 2**64 - 1}
SLICE_MAX = 2**63 - 1     # isize::MAX: no slice, Vec or str is longer (in bytes, hence in elements)


def _defs(body, l):
    from .panics import defs_of
    return defs_of(body, l)


def _ty_range(ty):
    if ty in U:
        return (0, U[ty])
    if ty == 'bool':
        return (0, 1)
    return None


def _array_len(ty):
    m = re.match(r"^&?(?:'[a-z_0-9]+ )?(?:mut )?\[[^;\]]+; (\d+)\]$", ty or '')
    return int(m.group(1)) if m else None


def _same_place(a, b):
    return a is not None and b is not None and a['l'] == b['l'] and a['p'] == b['p']


def _root_place(body, op, depth=0):
    """follow copies / reborrows to the place an operand ultimately denotes"""
    if depth > 8 or op.get('k') not in ('copy', 'move'):
        return None
    pl = op['place']
    if pl['p'] and pl['p'] != ['*']:
        return pl
    ds = _defs(body, pl['l'])
    if len(ds) == 1 and ds[0][0] == 'assign':
        rv = ds[0][1]
        if rv['k'] == 'use':
            r = _root_place(body, rv['op'], depth + 1)
            return r if r is not None else pl
        if rv['k'] in ('ref', 'copy_for_deref', 'rawptr'):
            inner = rv['place']
            if not inner['p'] or inner['p'] == ['*']:
                r = _root_place(body, {'k': 'copy', 'place': {'l': inner['l'], 'p': [], 'ty': inner.get('ty')}}, depth + 1)
                return r if r is not None else inner
            return inner
        if rv['k'] == 'cast':
            r = _root_place(body, rv['op'], depth + 1)
            return r if r is not None else pl
    if len(ds) == 1 and ds[0][0] == 'call':
        t = ds[0][1]
        c = callee(t)
        p = (c.get('resolved') or c['path']) if c else ''
        if p.split('::')[-1] in ('deref', 'deref_mut', 'as_ref', 'as_mut', 'as_slice', 'as_mut_slice', 'borrow', 'borrow_mut') and t['args']:
            r = _root_place(body, t['args'][0], depth + 1)
            return r if r is not None else pl
    return pl


def _skip_position_sum(body, a, b):
    """`start + offset` where offset = iter.skip(start).position(..)'s result: an element exists at start + offset,
    so the sum is a valid index (< isize::MAX) whatever `start` is"""
    for x, y in ((a, b), (b, a)):
        if y.get('k') not in ('copy', 'move'):
            continue
        pl = y['place']
        # follow copies to the position() call result payload
        seen = 0
        cur = pl
        while seen < 6:
            seen += 1
            ds = _defs(body, cur['l'])
            if len(ds) != 1:
                break
            k, d, blk = ds[0]
            if k == 'assign' and d['k'] == 'use' and d['op'].get('k') in ('copy', 'move'):
                cur = d['op']['place']
                continue
            if k == 'call':
                c = callee(d)
                p_ = (c.get('resolved') or c['path']) if c else ''
                if p_.split('::')[-1] in ('position',) and d['args']:
                    it = d['args'][0]
                    # the iterator: (&mut) skip(iter, start)
                    for _ in range(4):
                        if it.get('k') not in ('copy', 'move'):
                            break
                        ids = _defs(body, it['place']['l'])
                        if len(ids) != 1:
                            break
                        kk, dd, _b = ids[0]
                        if kk == 'assign' and dd['k'] in ('ref',):
                            it = {'k': 'copy', 'place': dd['place']}
                            continue
                        if kk == 'assign' and dd['k'] == 'use':
                            it = dd['op']
                            continue
                        if kk == 'call':
                            cc = callee(dd)
                            pp = (cc.get('resolved') or cc['path']) if cc else ''
                            if pp.split('::')[-1] == 'skip' and len(dd['args']) == 2:
                                return _same_place(_root_place(body, dd['args'][1]), _root_place(body, x)) or (
                                    dd['args'][1].get('k') in ('copy', 'move') and x.get('k') in ('copy', 'move') and dd['args'][1]['place'] == x['place'])
                        break
            break
    return False


class Prover:
    def __init__(self, body):
        self.body = body
        self._dom = None

    # ---- dominating guards ------------------------------------------------------------------------
    def guards(self, block):
        """facts that hold on entry to `block`: list of (kind, ...) from switch edges through which every path goes
           ('cmp', op_json_a, relation, op_json_b, truth) | ('int', discr_op, value) | ('notint', discr_op, values)"""
        b = self.body
        if self._dom is None:
            self._dom = lib.dominators(b)
        out = []
        chain = sorted(d for d in self._dom.get(block, ()) if d != block)
        for D in chain:
            t = b.blocks[D]['term']
            if t['k'] != 'switch':
                continue
            arms = t['arms']
            targets = [tb for _, tb in arms] + [t['otherwise']]
            for v, tb in arms:
                if targets.count(tb) == 1 and lib.only_via_edge(b, block, {(D, tb)}):
                    out.append(('switch', t['discr'], v, D))
            if targets.count(t['otherwise']) == 1 and lib.only_via_edge(b, block, {(D, t['otherwise'])}):
                out.append(('switch-not', t['discr'], tuple(v for v, _ in arms), D))
        return out

    def _cmp_def(self, op):
        """if operand is a local defined once as a comparison: (op, a, b)"""
        if op.get('k') not in ('copy', 'move') or op['place']['p']:
            return None
        ds = _defs(self.body, op['place']['l'])
        if len(ds) == 1 and ds[0][0] == 'assign' and ds[0][1]['k'] == 'bin' and ds[0][1]['op'] in ('Lt', 'Le', 'Gt', 'Ge', 'Eq', 'Ne'):
            rv = ds[0][1]
            return rv['op'], rv['a'], rv['b']
        if len(ds) == 1 and ds[0][0] == 'assign' and ds[0][1]['k'] == 'un' and ds[0][1].get('op') == 'Not':
            inner = self._cmp_def(ds[0][1]['a']) if 'a' in ds[0][1] else None
            if inner:
                neg = {'Lt': 'Ge', 'Le': 'Gt', 'Gt': 'Le', 'Ge': 'Lt', 'Eq': 'Ne', 'Ne': 'Eq'}
                return neg[inner[0]], inner[1], inner[2]
        return None

    def refine(self, block, subject_place, rng):
        """narrow the interval of the value held in subject_place using the guards of `block`"""
        lo, hi = rng
        # only for values that cannot change between the guard and the site: a local assigned once (or a parameter
        # that is never reassigned) whose address is not taken mutably
        l = subject_place['l']
        nd = len(_defs(self.body, l))
        if self._mut_borrowed(l) or not ((1 <= l <= self.body.arg_count and nd == 0) or (l > self.body.arg_count and nd == 1)):
            return rng
        for g in self.guards(block):
            kind, discr = g[0], g[1]
            cd = self._cmp_def(discr)
            if cd is not None:
                op, a, b2 = cd
                truth = None
                if kind == 'switch':
                    truth = (g[2] != 0)
                elif kind == 'switch-not' and g[2] == (0,):
                    truth = True
                elif kind == 'switch-not' and g[2] == (1,):
                    truth = False
                if truth is None:
                    continue
                if not truth:
                    op = {'Lt': 'Ge', 'Le': 'Gt', 'Gt': 'Le', 'Ge': 'Lt', 'Eq': 'Ne', 'Ne': 'Eq'}[op]
                pa, pb = _root_place(self.body, a), _root_place(self.body, b2)
                ca, cb = self.range_of(a, 0, None), self.range_of(b2, 0, None)
                if _same_place(pa, subject_place) and cb is not None:
                    if op == 'Lt':
                        hi = min(hi, cb[1] - 1)
                    elif op == 'Le':
                        hi = min(hi, cb[1])
                    elif op == 'Gt':
                        lo = max(lo, cb[0] + 1)
                    elif op == 'Ge':
                        lo = max(lo, cb[0])
                    elif op == 'Eq':
                        lo, hi = max(lo, cb[0]), min(hi, cb[1])
                if _same_place(pb, subject_place) and ca is not None:
                    if op == 'Lt':
                        lo = max(lo, ca[0] + 1)
                    elif op == 'Le':
                        lo = max(lo, ca[0])
                    elif op == 'Gt':
                        hi = min(hi, ca[1] - 1)
                    elif op == 'Ge':
                        hi = min(hi, ca[1])
                    elif op == 'Eq':
                        lo, hi = max(lo, ca[0]), min(hi, ca[1])
            else:
                # a predicate call on the subject: `x.is_ascii_digit()`
                dd = _defs(self.body, discr['place']['l']) if discr.get('k') in ('copy', 'move') and not discr['place']['p'] else []
                if len(dd) == 1 and dd[0][0] == 'call':
                    cc = callee(dd[0][1])
                    pp = (cc.get('resolved') or cc['path']) if cc else ''
                    truth = (g[2] != 0) if kind == 'switch' else (True if g[2] == (0,) else False if g[2] == (1,) else None)
                    if pp.split('::')[-1] == 'is_ascii_digit' and truth is True and dd[0][1]['args'] and _same_place(_root_place(self.body, dd[0][1]['args'][0]), subject_place):
                        lo, hi = max(lo, 48), min(hi, 57)
                pd = _root_place(self.body, discr)
                if _same_place(pd, subject_place):
                    if kind == 'switch':
                        lo, hi = max(lo, g[2]), min(hi, g[2])
        return (lo, hi)

    # ---- ranges --------------------------------------------------------------------------------------
    def range_of(self, op, depth=0, block=None):
        if depth > 10:
            return None
        if op.get('k') == 'const':
            if 'int' in op:
                return (op['int'], op['int'])
            return _ty_range(op.get('ty'))
        if op.get('k') not in ('copy', 'move'):
            return None
        pl = op['place']
        r = self._place_range(pl, depth)
        if r is None:
            r = _ty_range(pl.get('ty'))
        if r is not None and block is not None:
            rp = _root_place(self.body, op)
            if rp is not None:
                r = self.refine(block, rp, r)
        return r

    def _mut_borrowed(self, l):
        mb = self.body.__dict__.get('_mutb')
        if mb is None:
            mb = set()
            for blk in self.body.blocks:
                for st in blk['stmts']:
                    if st['k'] == 'assign' and st['rv']['k'] in ('ref', 'rawptr') and st['rv'].get('mut') and '*' not in [e for e in st['rv']['place']['p'] if isinstance(e, str)]:
                        mb.add(st['rv']['place']['l'])
            self.body._mutb = mb
        return l in mb

    def _place_range(self, pl, depth):
        body = self.body
        proj = pl['p']
        ds = _defs(body, pl['l'])
        if not ds or (1 <= pl['l'] <= body.arg_count) or self._mut_borrowed(pl['l']):
            return _ty_range(pl.get('ty'))
        rs = []
        for k, x, blk in ds:
            r = None
            if k == 'assign':
                rv = x
                if rv['k'] == 'use' and not proj:
                    r = self.range_of(rv['op'], depth + 1)
                elif rv['k'] == 'cast' and not proj:
                    r = self.range_of(rv['op'], depth + 1)
                    t = _ty_range(rv.get('ty'))
                    if r is not None and t is not None and r[1] > t[1]:
                        r = t
                    if r is None:
                        r = t
                elif rv['k'] == 'bin':
                    opn = rv['op'].replace('WithOverflow', '')
                    if rv['op'].endswith('WithOverflow') and not (len(proj) == 1 and isinstance(proj[0], dict) and proj[0].get('n') == '0'):
                        r = None
                    elif not rv['op'].endswith('WithOverflow') and proj:
                        r = None
                    else:
                        a, b = self.range_of(rv['a'], depth + 1), self.range_of(rv['b'], depth + 1)
                        if opn == 'Add' and _skip_position_sum(body, rv['a'], rv['b']):
                            r = (0, SLICE_MAX - 1)
                        elif a is not None and b is not None:
                            if opn == 'Add':
                                r = (a[0] + b[0], a[1] + b[1])
                            elif opn == 'Sub':
                                r = (max(0, a[0] - b[1]), max(0, a[1] - b[0]))
                            elif opn == 'Mul':
                                r = (a[0] * b[0], a[1] * b[1])
                            elif opn == 'Div' and b[0] > 0:
                                r = (a[0] // b[1], a[1] // b[0])
                            elif opn == 'Rem' and b[1] > 0:
                                r = (0, b[1] - 1)
                            elif opn == 'BitAnd':
                                r = (0, min(a[1], b[1]))
                            elif opn == 'Shr':
                                r = (0, a[1] >> b[0]) if b[0] >= 0 else None
                            elif opn in ('Lt', 'Le', 'Gt', 'Ge', 'Eq', 'Ne'):
                                r = (0, 1)
                        t = _ty_range(pl.get('ty'))
                        if r is not None and t is not None:
                            r = (max(r[0], t[0]), min(r[1], t[1])) if not rv['op'].endswith('WithOverflow') else r
                elif rv['k'] == 'agg' and rv.get('agg') == 'tuple' and len(proj) == 1 and isinstance(proj[0], dict) and 'f' in proj[0] and proj[0]['f'] < len(rv['ops']):
                    r = self.range_of(rv['ops'][proj[0]['f']], depth + 1)
                elif rv['k'] == 'use' and proj and rv['op'].get('k') in ('copy', 'move'):
                    # a copy of a whole tuple / struct: look through to the same field of the source
                    src = rv['op']['place']
                    r = self._place_range({'l': src['l'], 'p': list(src['p']) + list(proj), 'ty': pl.get('ty')}, depth + 1)
                elif rv['k'] == 'len':
                    n = _array_len(rv['place'].get('ty'))
                    r = (n, n) if n is not None else (0, SLICE_MAX)
            else:
                t = x
                c = callee(t)
                p = (c.get('resolved') or c['path']) if c else ''
                last = p.split('::')[-1]
                if last == 'len' and not proj:
                    n = _array_len(t['args'][0]['place'].get('ty')) if t['args'] and t['args'][0].get('k') in ('copy', 'move') else None
                    r = (n, n) if n is not None else (0, SLICE_MAX)
                    if n is None and depth < 9 and t['args'] and p.startswith('core::slice::'):
                        # the slice is a view of a fixed-size array (`&arr as &[u8]`), a chunk or one half of a split
                        r = self.len_range(t['args'][0], blk) or r
                elif last in ('position', 'rposition') and proj and isinstance(proj[-1], dict) and proj[-1].get('n') == '0':
                    r = (0, SLICE_MAX - 1)
                elif last == 'count' and not proj:
                    r = (0, SLICE_MAX)
                elif last == 'from' and 'From<bool>' in p and not proj:
                    r = (0, 1)
                elif last == 'min' and len(t['args']) == 2 and not proj:
                    a, b = self.range_of(t['args'][0], depth + 1), self.range_of(t['args'][1], depth + 1)
                    his = [z[1] for z in (a, b) if z is not None]
                    los = [z[0] for z in (a, b) if z is not None]
                    if his:
                        r = (min(los) if len(los) == 2 else 0, min(his))
                elif last == 'max' and len(t['args']) == 2 and not proj:
                    a, b = self.range_of(t['args'][0], depth + 1), self.range_of(t['args'][1], depth + 1)
                    if a is not None and b is not None:
                        r = (max(a[0], b[0]), max(a[1], b[1]))
            if r is None:
                r = _ty_range(pl.get('ty'))
            if r is None:
                return None
            rs.append(r)
        return (min(r[0] for r in rs), max(r[1] for r in rs))

    def _param_chunk_len(self, l):
        """parameter `l` (the only one) of a private function that is used nowhere but as the per-element function of
        `x.chunks_exact(n).map / filter_map / for_each(..)`: every value it ever receives is a chunk of n elements"""
        body = self.body
        facts = lib._TL.facts
        if facts is None or body.arg_count != 1 or l != 1 or body.kind not in ('fn', 'method'):
            return None
        fn = facts.fns.get(body.path) if hasattr(facts, 'fns') else None
        if fn is not None and (fn.get('vis') or {}).get('nominal', '') == 'pub':
            return None
        rng = None

        def fn_values(x):
            """operands that are this function as a value"""
            n = 0
            if isinstance(x, dict):
                if x.get('k') == 'const' and isinstance(x.get('fn'), dict) and x['fn'].get('path') == body.path:
                    n += 1
                for v in x.values():
                    n += fn_values(v)
            elif isinstance(x, list):
                for v in x:
                    n += fn_values(v)
            return n
        for b in facts.body_list:
            if b.kind == 'stolen':
                continue
            for bi, blk in enumerate(b.blocks):
                if fn_values(blk['stmts']):
                    return None              # the function escapes as a value some other way
                t = blk['term']
                if t.get('k') != 'call':
                    if fn_values(t):
                        return None
                    continue
                c = callee(t)
                cp = (c.get('resolved') or c['path']) if c else ''
                if cp == body.path:
                    return None              # called directly with an arbitrary slice
                hits = [i for i, a in enumerate(t['args']) if fn_values(a)]
                if not hits:
                    continue
                if hits != [1] or cp.split('::')[-1] not in ('map', 'filter_map', 'for_each', 'all', 'any', 'find_map', 'flat_map'):
                    return None
                r = Prover(b)._chunk_len(t['args'][0])
                if r is None:
                    return None
                rng = r if rng is None else (min(rng[0], r[0]), max(rng[1], r[1]))
        return rng

    def _chunk_len(self, op, depth=0):
        """length interval of an element drawn from `x.chunks_exact(n)` (every such chunk has exactly n elements)"""
        if depth > 8 or op.get('k') not in ('copy', 'move'):
            return None
        pl = op['place']
        if pl['p'] in ([], ['*']) and 1 <= pl['l'] <= self.body.arg_count and depth < 8:
            return self._param_chunk_len(pl['l'])
        ds = _defs(self.body, pl['l'])
        if len(ds) != 1:
            return None
        k, d, blk = ds[0]
        if k == 'assign' and d['k'] == 'use':
            return self._chunk_len(d['op'], depth + 1)
        if k == 'assign' and d['k'] in ('ref', 'copy_for_deref'):
            return self._chunk_len({'k': 'copy', 'place': d['place']}, depth + 1)
        if k == 'call':
            c = callee(d)
            p_ = (c.get('resolved') or c['path']) if c else ''
            last = p_.split('::')[-1]
            if last in ('next', 'into_iter', 'by_ref') and d['args']:
                return self._chunk_len(d['args'][0], depth + 1)
            if last == 'chunks_exact' and len(d['args']) == 2:
                return self.range_of(d['args'][1], 0)
        return None

    # ---- lengths ---------------------------------------------------------------------------------------
    def _split_part_len(self, rp, block, depth=0):
        """length of one half of `x.split_at(mid)` / `split_at_mut(mid)`: .0 has mid elements, .1 has len(x) - mid"""
        if rp is None or depth > 2 or len(rp['p']) != 1 or not (isinstance(rp['p'][0], dict) and rp['p'][0].get('f') in (0, 1)):
            return None
        ds = _defs(self.body, rp['l'])
        if len(ds) != 1 or ds[0][0] != 'call':
            return None
        t = ds[0][1]
        c = callee(t)
        pth = (c.get('resolved') or c['path']) if c else ''
        if pth.split('::')[-1] not in ('split_at', 'split_at_mut') or len(t['args']) != 2 or not pth.startswith('core::slice::'):
            return None
        mid = self.range_of(t['args'][1], 0, ds[0][2])
        whole = self.len_range(t['args'][0], ds[0][2])
        if mid is None or whole is None:
            return None
        if rp['p'][0]['f'] == 0:
            return (mid[0], min(mid[1], whole[1]))
        return (max(0, whole[0] - mid[1]), max(0, whole[1] - mid[0]))

    def _range_view_len(self, rp, block, depth=0):
        """length of `x[a..b]` / `x[..b]` / `x[a..]` (a slice view made by Index/IndexMut with a half-open range) when the
        bounds are known exactly and lie inside a fixed-length `x`: b - a (a defaults to 0, b to len(x))"""
        if rp is None or depth > 2 or rp['p'] not in ([], ['*']):
            return None
        ds = _defs(self.body, rp['l'])
        if len(ds) != 1 or ds[0][0] != 'call':
            return None
        t = ds[0][1]
        c = callee(t)
        pth = (c.get('resolved') or c['path']) if c else ''
        if pth.split('::')[-1] not in ('index', 'index_mut') or len(t['args']) != 2 or t['args'][1].get('k') not in ('copy', 'move') or t['args'][1]['place']['p']:
            return None
        rd = _defs(self.body, t['args'][1]['place']['l'])
        if not (len(rd) == 1 and rd[0][0] == 'assign' and rd[0][1]['k'] == 'agg' and rd[0][1].get('agg') == 'adt'
                and rd[0][1]['adt'].startswith('std::ops::Range') and not rd[0][1]['adt'].endswith('Inclusive')):
            return None
        rv = rd[0][1]
        whole = self.len_range(t['args'][0], ds[0][2])
        if whole is None or whole[0] != whole[1]:
            return None
        vals = dict(zip(rv['fields'], rv['ops']))
        lo = self.range_of(vals['start'], 0, ds[0][2]) if 'start' in vals else (0, 0)
        hi = self.range_of(vals['end'], 0, ds[0][2]) if 'end' in vals else whole
        if lo is None or hi is None or lo[0] != lo[1] or hi[0] != hi[1] or not (lo[0] <= hi[0] <= whole[0]):
            return None
        return (hi[0] - lo[0], hi[0] - lo[0])

    def len_range(self, op, block):
        """interval of the length of the slice / array an operand denotes, refined by guards on `x.len()`"""
        n = _array_len((op.get('place') or {}).get('ty'))
        if n is not None:
            return (n, n)
        rp = _root_place(self.body, op)
        n = _array_len((rp or {}).get('ty'))
        if n is not None:
            return (n, n)
        rng = (0, SLICE_MAX)
        sp = self._split_part_len(rp, block)
        if sp is not None:
            return sp
        sv = self._range_view_len(rp, block)
        if sv is not None:
            return sv
        ck = self._chunk_len(op)
        if ck is not None:
            rng = (max(rng[0], ck[0]), min(rng[1], ck[1]))
        if rp is None:
            return rng
        # any local defined as len(<same place>) that the guards talk about
        for l in range(len(self.body.locals)):
            for k, x, blk in _defs(self.body, l):
                src = None
                if k == 'call':
                    c = callee(x)
                    p = (c.get('resolved') or c['path']) if c else ''
                    if p.split('::')[-1] == 'len' and x['args']:
                        src = _root_place(self.body, x['args'][0])
                elif k == 'assign' and x['k'] == 'len':
                    src = x['place']
                if src is not None and _same_place(src, rp):
                    lp = {'l': l, 'p': [], 'ty': 'usize'}
                    rng2 = self.refine(block, lp, rng)
                    rng = (max(rng[0], rng2[0]), min(rng[1], rng2[1]))
        return rng


def prove_site(body, block, term):
    """reason string if the panic-capable terminator provably cannot fire, else None"""
    pr = Prover(body)
    if term['k'] == 'assert':
        kind = term['assert']
        if kind == 'bounds':
            i = pr.range_of(term['index'], 0, block)
            n = pr.range_of(term['len'], 0, block)
            if i is not None and n is not None and i[1] < n[0]:
                return 'index <= %d < length >= %d' % (i[1], n[0])
            return None
        c = term['cond']
        if c.get('k') not in ('copy', 'move'):
            return None
        ds = _defs(body, c['place']['l'])
        if len(ds) != 1 or ds[0][0] != 'assign' or ds[0][1]['k'] != 'bin':
            return None
        rv = ds[0][1]
        if kind in ('div_zero', 'rem_zero') and rv['op'] == 'Eq':
            # the assert checks `divisor == 0` to be false
            for x, y in ((rv['a'], rv['b']), (rv['b'], rv['a'])):
                if y.get('k') == 'const' and y.get('int') == 0:
                    r = pr.range_of(x, 0, block)
                    if r is not None and r[0] > 0:
                        return 'divisor >= %d' % r[0]
            return None
        if not rv['op'].endswith('WithOverflow'):
            return None
        ty = (rv['a'].get('place') or {}).get('ty') or rv['a'].get('ty') or (rv['b'].get('place') or {}).get('ty') or rv['b'].get('ty')
        if ty not in U:
            return None
        a, b = pr.range_of(rv['a'], 0, block), pr.range_of(rv['b'], 0, block)
        if a is None or b is None:
            return None
        opn = rv['op'].replace('WithOverflow', '')
        if opn == 'Add' and _skip_position_sum(body, rv['a'], rv['b']):
            return 'start + offset with offset found by iter.skip(start).position(..): the sum indexes an existing element'
        if opn == 'Add' and a[1] + b[1] <= U[ty]:
            return '%s + %s cannot exceed %s::MAX (operands <= %d, %d)' % ('a', 'b', ty, a[1], b[1])
        if opn == 'Sub' and a[0] - b[1] >= 0:
            return 'a - b cannot underflow (a >= %d, b <= %d)' % (a[0], b[1])
        if opn == 'Mul' and a[1] * b[1] <= U[ty]:
            return 'a * b cannot exceed %s::MAX (operands <= %d, %d)' % (ty, a[1], b[1])
        return None
    if term['k'] == 'call':
        c = callee(term)
        p = (c.get('resolved') or c['path']) if c else ''
        last = p.split('::')[-1]
        if last in ('split_at', 'split_at_mut') and len(term['args']) == 2:
            k = pr.range_of(term['args'][1], 0, block)
            n = pr.len_range(term['args'][0], block)
            if k is not None and k[1] <= n[0]:
                return 'split point <= %d <= length >= %d' % (k[1], n[0])
        if last in ('index', 'index_mut') and len(term['args']) == 2 and term['args'][1].get('k') in ('copy', 'move') and not term['args'][1]['place']['p']:
            # slicing with a range whose bounds stay inside the (fixed or guarded) length
            ds = _defs(body, term['args'][1]['place']['l'])
            if len(ds) == 1 and ds[0][0] == 'assign' and ds[0][1]['k'] == 'agg' and ds[0][1].get('agg') == 'adt' and ds[0][1]['adt'].startswith('std::ops::Range') \
                    and not ds[0][1]['adt'].endswith('Inclusive'):
                rv = ds[0][1]
                n = pr.len_range(term['args'][0], block)
                vals = dict(zip(rv['fields'], rv['ops']))
                lo = pr.range_of(vals['start'], 0, block) if 'start' in vals else (0, 0)
                hi = pr.range_of(vals['end'], 0, block) if 'end' in vals else (n[0], n[0])
                if lo is not None and hi is not None and hi[1] <= n[0] and lo[1] <= (hi[0] if 'end' in vals else n[0]):
                    return 'range %s..%s within a length >= %d' % (lo[1], hi[1], n[0])
        if last in ('copy_from_slice', 'clone_from_slice') and len(term['args']) == 2 and p.startswith('core::slice::'):
            # panics unless both slices have the same length
            a, b = pr.len_range(term['args'][0], block), pr.len_range(term['args'][1], block)
            if a is not None and b is not None and a[0] == a[1] == b[0] == b[1]:
                return 'both slices have exactly %d elements' % a[0]
        if last == 'pow' and len(term['args']) == 2:
            base, e = pr.range_of(term['args'][0], 0, block), pr.range_of(term['args'][1], 0, block)
            ty = (term['dest'] or {}).get('ty')
            if base is not None and e is not None and ty in U and e[1] <= 128 and base[1] ** e[1] <= U[ty]:
                return 'base^exponent <= %d^%d fits %s' % (base[1], e[1], ty)
    return None
