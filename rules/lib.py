"""Shared static analyses over factgen facts: CFG utilities, call index, term building,
acyclic path enumeration with forward substitution (decision-table extraction), result records.

Nothing here executes code of the analysed crate; "evaluation" is constant folding over integer
and Duration literals that rustc already evaluated or that appear as MIR constants.
"""
import re, sys, time, json, os
from collections import defaultdict
from .facts import Facts, Body, callee, callee_path, fmt_term, fmt_place, fmt_op

# ------------------------------------------------------------------------------------------------
# result records


class Results:
    def __init__(self, prop):
        self.prop = prop
        self.records = []  # dicts
        self._index = {}
        self.functions = set()
        self.sites = 0
        self.paths = 0

    def _rec(self, verdict, rule, anchor, what, site=None, detail=None, key=None):
        r = {
            'property': self.prop,
            'rule': rule,
            'anchor': anchor,
            'what': what,
            'site': site,
            'verdict': verdict,
            'detail': detail,
            # violations are keyed without line numbers
            'key': '%s|%s|%s|%s' % (self.prop, rule, anchor, key if key is not None else what),
        }
        # identical instances reached on several paths are one obligation (counted)
        k = (r['key'], verdict)
        old = self._index.get(k)
        if old is not None:
            old['count'] = old.get('count', 1) + 1
            return old
        self._index[k] = r
        self.records.append(r)
        return r

    def ok(self, rule, anchor, what, site=None, detail=None, key=None):
        return self._rec('ok', rule, anchor, what, site, detail, key)

    def bad(self, rule, anchor, what, site=None, detail=None, key=None):
        return self._rec('violation', rule, anchor, what, site, detail, key)

    def check(self, cond, rule, anchor, what, site=None, detail=None, key=None):
        if cond:
            return self.ok(rule, anchor, what, site, detail, key)
        return self.bad(rule, anchor, what, site, detail, key)

    def violations(self):
        return [r for r in self.records if r['verdict'] == 'violation']

    def touch(self, body):
        if body is not None:
            self.functions.add(body.path)


class Filtered:
    """view of a Results object that keeps only the records whose key matches `rx` (used when a property
    re-uses a rule of another property but relies on only some of its obligations)"""

    def __init__(self, res, rx):
        self._res = res
        self._rx = re.compile(rx)
        self.prop = res.prop

    def __getattr__(self, name):
        return getattr(self._res, name)

    def __setattr__(self, name, value):
        if name in ('_res', '_rx', 'prop'):
            object.__setattr__(self, name, value)
        else:
            setattr(self._res, name, value)

    def _keep(self, what, key):
        return bool(self._rx.search(str(key if key is not None else what)))

    def ok(self, rule, anchor, what, site=None, detail=None, key=None):
        if self._keep(what, key):
            return self._res.ok(rule, anchor, what, site, detail, key)

    def bad(self, rule, anchor, what, site=None, detail=None, key=None):
        if self._keep(what, key):
            return self._res.bad(rule, anchor, what, site, detail, key)

    def check(self, cond, rule, anchor, what, site=None, detail=None, key=None):
        if self._keep(what, key):
            return self._res.check(cond, rule, anchor, what, site, detail, key)

    def touch(self, body):
        self._res.touch(body)


class Lost(Exception):
    """an anchor the rule talks about cannot be found (fail closed: reported as a violation)"""


# ------------------------------------------------------------------------------------------------
# CFG utilities


def reach(body, start, avoid_blocks=(), avoid_edges=()):
    """blocks reachable from `start` over normal edges, never entering avoid_blocks and never
    taking an edge in avoid_edges (set of (from, to))"""
    avoid_blocks = set(avoid_blocks)
    avoid_edges = set(avoid_edges)
    if start in avoid_blocks:
        return set()
    seen = {start}
    st = [start]
    sm = body.succ_map()
    while st:
        b = st.pop()
        for s in sm[b]:
            if s in seen or s in avoid_blocks or (b, s) in avoid_edges:
                continue
            seen.add(s)
            st.append(s)
    return seen


def dominators(body):
    """immediate-dominator-free representation: dom[b] = set of blocks dominating b (reachable only)"""
    if getattr(body, '_dom', None) is not None:
        return body._dom
    rs = body.reachable(0)
    order = sorted(rs)
    pm = body.pred_map()
    dom = {b: set(order) for b in order}
    dom[0] = {0}
    changed = True
    while changed:
        changed = False
        for b in order:
            if b == 0:
                continue
            ps = [p for p in pm[b] if p in rs]
            if not ps:
                continue
            new = set.intersection(*[dom[p] for p in ps]) | {b}
            if new != dom[b]:
                dom[b] = new
                changed = True
    body._dom = dom
    return dom


def dominates(body, a, b):
    d = dominators(body)
    return b in d and a in d[b]


def return_blocks(body):
    return [i for i, b in enumerate(body.blocks) if not b['cleanup'] and b['term']['k'] == 'return']


def only_via_edge(body, site, edges, start=0):
    """True iff `site` block is unreachable from `start` once `edges` are removed
    (i.e. every path to the site takes one of the edges)"""
    return site not in reach(body, start, avoid_edges=edges)


def must_pass(body, start, through_blocks, targets=None):
    """True iff every normal path from `start` to any block in `targets` (default: return blocks)
    passes through one of `through_blocks`"""
    if targets is None:
        targets = return_blocks(body)
    r = reach(body, start, avoid_blocks=through_blocks)
    return not any(t in r for t in targets)


def natural_loop_blocks(body):
    """blocks that lie on some cycle of the normal CFG"""
    sm = body.succ_map()
    n = len(body.blocks)
    # Tarjan SCC
    index = {}
    low = {}
    onst = set()
    st = []
    res = set()
    counter = [0]
    sys.setrecursionlimit(max(10000, n * 4))

    def sc(v):
        index[v] = low[v] = counter[0]
        counter[0] += 1
        st.append(v)
        onst.add(v)
        for w in sm[v]:
            if w not in index:
                sc(w)
                low[v] = min(low[v], low[w])
            elif w in onst:
                low[v] = min(low[v], index[w])
        if low[v] == index[v]:
            comp = []
            while True:
                w = st.pop()
                onst.discard(w)
                comp.append(w)
                if w == v:
                    break
            if len(comp) > 1 or v in sm[v]:
                res.update(comp)

    for v in body.reachable(0):
        if v not in index:
            sc(v)
    return res


def sccs(body):
    """list of strongly connected components (sets of blocks) with more than one block or a self loop"""
    sm = body.succ_map()
    index = {}
    low = {}
    onst = set()
    st = []
    out = []
    counter = [0]

    def sc(v):
        index[v] = low[v] = counter[0]
        counter[0] += 1
        st.append(v)
        onst.add(v)
        for w in sm[v]:
            if w not in index:
                sc(w)
                low[v] = min(low[v], low[w])
            elif w in onst:
                low[v] = min(low[v], index[w])
        if low[v] == index[v]:
            comp = set()
            while True:
                w = st.pop()
                onst.discard(w)
                comp.add(w)
                if w == v:
                    break
            if len(comp) > 1 or v in sm[v]:
                out.append(comp)

    sys.setrecursionlimit(max(10000, len(body.blocks) * 4))
    for v in sorted(body.reachable(0)):
        if v not in index:
            sc(v)
    return out


def is_await_block(body, b):
    t = body.blocks[b]['term']
    return 'd:Await' in t.get('ex', [])


def real_loops(body):
    """SCCs that are not pure await poll-loops (an await loop consists only of d:Await blocks)"""
    out = []
    for comp in sccs(body):
        if all(is_await_block(body, b) for b in comp):
            continue
        out.append(comp)
    return out


# ------------------------------------------------------------------------------------------------
# call index


class Site:
    __slots__ = ('body', 'block', 'term')

    def __init__(self, body, block, term):
        self.body = body
        self.block = block
        self.term = term

    @property
    def where(self):
        return self.term['sp']

    @property
    def callee(self):
        return callee_path(self.term)

    def __repr__(self):
        return '<%s bb%d %s @%s>' % (self.body.path, self.block, self.callee, self.where)


import threading


class _PerThread(threading.local):
    # the selftest analyses several scratch trees in parallel threads: the tree being analysed is per thread
    def __init__(self):
        self.facts = None
        self.summaries = {}


_TL = _PerThread()
_KNOWN = [None]


def known_fns():
    """body paths that existed when the rules were written: rules treat these as opaque, named calls.
    A function that is NOT in this list is new (typically a helper extracted by a refactoring) and is
    inlined by the path enumerator when it is straight-line code."""
    if _KNOWN[0] is None:
        try:
            with open(os.path.join(os.path.dirname(os.path.abspath(__file__)), 'known_fns.txt')) as fh:
                _KNOWN[0] = {l.strip() for l in fh if l.strip()}
        except OSError:
            _KNOWN[0] = set()
    return _KNOWN[0]


def subst_params(t, args):
    if not isinstance(t, tuple):
        return t
    if t and t[0] == 'param' and isinstance(t[1], int) and 1 <= t[1] <= len(args):
        return args[t[1] - 1]
    if isinstance(t, FrozenDict):
        return FrozenDict(tuple((k, subst_params(v, args)) for k, v in t))
    return tuple(subst_params(x, args) if isinstance(x, tuple) else x for x in t)


def inline_summary(path, depth=0):
    """(return term, effects) of a new, synchronous, straight-line crate-local function, else None"""
    _SUMMARIES = _TL.summaries
    if path in _SUMMARIES:
        return _SUMMARIES[path]
    _SUMMARIES[path] = None
    facts = _TL.facts
    if facts is None or depth > 2 or path in known_fns():
        return None
    b = facts.body(path)
    if b is None or b.kind not in ('fn', 'method') or len(b.blocks) > 60:
        return None
    s = Sym(b, max_paths=64)
    try:
        s.run()
    except Lost:
        return None
    live = [p for p in s.paths if p.end != 'diverge']
    if len(live) != 1 or live[0].end != 'return' or live[0].conds:
        return None
    _SUMMARIES[path] = (live[0].ret, [e for e in live[0].effects if e[0] in ('call', 'write')])
    return _SUMMARIES[path]


def _mentions_local(x, l):
    if isinstance(x, dict):
        if x.get('l') == l and 'p' in x:
            return True
        return any(_mentions_local(v, l) for v in x.values())
    if isinstance(x, list):
        return any(_mentions_local(v, l) for v in x)
    return False


class Ctx:
    def __init__(self, facts):
        self.f = facts
        self._calls = None
        _TL.facts = facts
        _TL.summaries = {}

    def body(self, path):
        b = self.f.body(path)
        if b is None or b.kind == 'stolen':
            raise Lost('body not found: %s' % path)
        return b

    def co(self, fn_path):
        """coroutine body of an async fn, or the fn body itself when it is not async"""
        b = self.f.coroutine_of(fn_path)
        if b is not None:
            return b
        return self.body(fn_path)

    def all_calls(self):
        if self._calls is None:
            idx = defaultdict(list)
            for body in self.f.body_list:
                if body.kind == 'stolen':
                    continue
                for i, t in body.calls():
                    c = callee(t)
                    if c is None:
                        idx[None].append(Site(body, i, t))
                        continue
                    idx[c['path']].append(Site(body, i, t))
                    if c.get('resolved') and c['resolved'] != c['path']:
                        idx[c['resolved']].append(Site(body, i, t))
            self._calls = idx
        return self._calls

    def derived_fns(self):
        if getattr(self, '_derived', None) is None:
            d = set()
            for im in self.f.impls:
                if im['derived']:
                    d.update(im['items'])
            self._derived = d
        return self._derived

    def is_derived(self, body_path):
        """body belongs to an impl generated by #[derive(..)] (or is a closure/const nested in one)"""
        d = self.derived_fns()
        return any(body_path == x or body_path.startswith(x + '::') for x in d)

    def calls_to(self, path):
        """all call sites in the crate whose (resolved or declared) callee is exactly `path`"""
        return list(self.all_calls().get(path, []))

    def calls_matching(self, rx):
        r = re.compile(rx)
        out = []
        seen = set()
        for p, sites in self.all_calls().items():
            if p is not None and r.search(p):
                for s in sites:
                    k = (s.body.path, s.block)
                    if k not in seen:
                        seen.add(k)
                        out.append(s)
        return out

    def calls_in(self, body, path=None, rx=None):
        out = []
        r = re.compile(rx) if rx else None
        for i, t in body.calls():
            c = callee(t)
            if c is None:
                continue
            names = [c['path']] + ([c['resolved']] if c.get('resolved') else [])
            if path is not None and path in names:
                out.append(Site(body, i, t))
            elif r is not None and any(r.search(n) for n in names):
                out.append(Site(body, i, t))
        return out

    def aggregates(self, adt=None, variant=None, body=None):
        """all Aggregate rvalues constructing adt[::variant]: list of (body, block, stmt)"""
        out = []
        bodies = [body] if body is not None else self.f.body_list
        for b in bodies:
            if b.kind == 'stolen':
                continue
            for i, blk in enumerate(b.blocks):
                if blk['cleanup']:
                    continue
                for s in blk['stmts']:
                    if s['k'] != 'assign':
                        continue
                    rv = s['rv']
                    if rv['k'] == 'agg' and rv['agg'] == 'adt':
                        if adt is not None and rv['adt'] != adt:
                            continue
                        if variant is not None and rv['variant'] != variant:
                            continue
                        out.append((b, i, s))
        return out

    def only_compared(self, body, stmt):
        """is the value built by aggregate statement `stmt` used for nothing but a comparison (`x == Variant`)?
        i.e. its local is only borrowed, and those borrows only feed PartialEq::eq / ne"""
        if stmt['place']['p']:
            return False
        l = stmt['place']['l']
        refs = set()
        for blk in body.blocks:
            for s in blk['stmts']:
                if s is stmt or s['k'] != 'assign':
                    continue
                rv = s['rv']
                if rv['k'] == 'ref' and rv['place']['l'] == l and not rv['place']['p'] and not s['place']['p']:
                    refs.add(s['place']['l'])
                elif _mentions_local(rv, l):
                    return False
            t = blk['term']
            if _mentions_local({k: v for k, v in t.items() if k != 'dest'}, l):
                return False
        if not refs:
            return False
        for blk in body.blocks:
            for s in blk['stmts']:
                if s['k'] == 'assign' and any(_mentions_local(s['rv'], r) for r in refs):
                    return False
            t = blk['term']
            if t['k'] == 'call':
                uses = [a for a in t['args'] if any(_mentions_local(a, r) for r in refs)]
                if uses and not ((callee_path(t) or '').endswith('::eq') or (callee_path(t) or '').endswith('::ne')):
                    return False
            elif any(_mentions_local(t, r) for r in refs):
                return False
        return True

    def field_writes(self, adt_ty_rx, field):
        """assignments whose destination place ends in field `field` of a base whose type matches adt_ty_rx.
        Whole-struct aggregates are reported by aggregates()."""
        r = re.compile(adt_ty_rx)
        out = []
        for b in self.f.body_list:
            if b.kind == 'stolen':
                continue
            for i, blk in enumerate(b.blocks):
                if blk['cleanup']:
                    continue
                for s in blk['stmts']:
                    if s['k'] != 'assign':
                        continue
                    pl = s['place']
                    if not pl['p']:
                        continue
                    last = pl['p'][-1]
                    if isinstance(last, dict) and last.get('n') == field:
                        bty = place_base_type(b, pl, len(pl['p']) - 1)
                        if bty is not None and r.search(bty):
                            out.append((b, i, s))
        return out

    def mut_borrows_of_field(self, adt_ty_rx, field):
        """`&mut base.field` rvalues (a mutable reference to the field escapes to a callee)"""
        r = re.compile(adt_ty_rx)
        out = []
        for b in self.f.body_list:
            if b.kind == 'stolen':
                continue
            for i, blk in enumerate(b.blocks):
                if blk['cleanup']:
                    continue
                for s in blk['stmts']:
                    if s['k'] != 'assign':
                        continue
                    rv = s['rv']
                    if rv['k'] == 'ref' and rv['mut']:
                        pl = rv['place']
                        for j, e in enumerate(pl['p']):
                            if isinstance(e, dict) and e.get('n') == field:
                                bty = place_base_type(b, pl, j)
                                if bty is not None and r.search(bty):
                                    out.append((b, i, s))
                                    break
        return out


def place_base_type(body, place, upto):
    """type (string) of the value that projection number `upto` (a field projection) is applied to"""
    e = place['p'][upto]
    if isinstance(e, dict) and 'bt' in e:
        return e['bt']
    return None


def strip_ref(ty):
    ty = ty.strip()
    m = re.match(r"^&(?:'[a-z_0-9]+ )?(?:mut )?(.*)$", ty)
    if m:
        return m.group(1)
    m = re.match(r'^std::boxed::Box<(.*)>$', ty)
    if m:
        return m.group(1)
    return ty


def strip_generics(ty):
    i = ty.find('<')
    return ty if i < 0 else ty[:i]


# ------------------------------------------------------------------------------------------------
# terms

def T(*a):
    return tuple(a)


def const_term(o):
    if 'fn' in o:
        fn = o['fn']
        return ('fn', fn.get('resolved') or fn['path'], fn['path'])
    if 'int' in o:
        if 'def' in o:
            return ('int', o['int'], o['def'])
        return ('int', o['int'], None)
    if 'bytes' in o:
        return ('str', o['bytes'])
    if 'val' in o and o['val'] is not None:
        return ('val', json.dumps(o['val']))
    if 'def' in o:
        return ('named', o['def'])
    return ('const', o.get('text', '?'), o.get('ty'))


LOOP_MUTATORS = {'push', 'push_back', 'push_front', 'insert', 'extend', 'extend_from_slice', 'append', 'push_str', 'remove', 'clear', 'pop', 'truncate', 'retain', 'entry'}


class Path:
    """one acyclic path through a body with forward-substituted terms"""

    def __init__(self):
        self.env = {}        # local -> term
        self.store = {}      # place-term -> term (writes through projections)
        self.conds = []      # (term, value or ('not', [values]), block)
        self.effects = []    # ('call', path, args, block, dest_term) | ('write', place_term, value, block)
        self.blocks = []
        self.refroot = {}    # local holding a &mut borrow -> local it (transitively) borrows from
        self.end = None      # 'return' | 'loop' | 'await-pending' | 'unreachable' | 'diverge' | 'yield'
        self.ret = None

    def clone(self):
        p = Path()
        p.env = dict(self.env)
        p.store = dict(self.store)
        p.conds = list(self.conds)
        p.effects = list(self.effects)
        p.blocks = list(self.blocks)
        p.refroot = dict(self.refroot)
        return p


class Sym:
    """acyclic path enumeration with forward substitution for one body"""

    def __init__(self, body, max_paths=20000, stop_at=(), merge_loop_exits=False):
        self.body = body
        self.max_paths = max_paths
        self.paths = []
        self.stop_at = set(stop_at)
        # merge_loop_exits: the code after a loop is explored once per exit target (from the first path that
        # leaves the loop) instead of once per path through the loop: sum instead of product of path counts
        self.merge_loop_exits = merge_loop_exits
        self._exit_seen = set()

    # -- reading ---------------------------------------------------------------------------------
    def local_term(self, p, l):
        if l in p.env:
            return p.env[l]
        b = self.body
        if 1 <= l <= b.arg_count:
            return ('param', l, b.local_name(l))
        return ('local', l, b.local_name(l))

    def place_term(self, p, place):
        proj = place['p']
        if (self.body.kind == 'coroutine' and place['l'] == 1 and proj and isinstance(proj[0], dict) and 'f' in proj[0]
                and 1 not in p.env):
            # captured parameter of an async fn: position = upvar index + 1
            t = ('param', proj[0]['f'] + 1, proj[0]['n'])
            proj = proj[1:]
        else:
            t = self.local_term(p, place['l'])
        for e in proj:
            t = self.project(p, t, e)
        return t

    def project(self, p, t, e):
        if e == '*':
            if t[0] == 'ref':
                nt = t[1]
            elif t[0] == 'closure':
                nt = t            # `(*_1).capture` of a by-reference closure environment
            else:
                nt = ('deref', t)
        elif isinstance(e, dict) and 'f' in e and t[0] == 'closure' and isinstance(e['f'], int) and e['f'] < len(t[2]):
            nt = t[2][e['f']]     # a captured value, when the closure is analysed together with its creation site
        elif isinstance(e, dict) and 'f' in e:
            n = e['n']
            if t[0] == 'agg' and n in t[2]:
                nt = t[2][n] if isinstance(t[2], dict) else dict(t[2]).get(n)
            elif t[0] == 'bin' and t[1].endswith('WithOverflow'):
                if n == '0':
                    nt = ('bin', t[1][:-len('WithOverflow')], t[2], t[3])
                else:
                    nt = ('overflow', t)
            elif n == '0' and t[0] == 'downcast' and t[2] == 'Ready' and t[1][0] == 'poll':
                nt = ('await', t[1][1])
            else:
                nt = ('field', t, n)
        elif isinstance(e, dict) and 'dc' in e:
            if t[0] == 'agg' and t[1].endswith('::' + e['dc']):
                nt = t
            else:
                nt = ('downcast', t, e['dc'])
        elif isinstance(e, dict) and 'idx' in e:
            nt = ('index', t, self.local_term(p, e['idx']))
        elif isinstance(e, dict) and 'cidx' in e:
            nt = ('index', t, ('int', e['cidx'], None))
        else:
            nt = ('proj', t, json.dumps(e))
        if nt in p.store:
            return p.store[nt]
        return nt

    def op_term(self, p, o):
        if o['k'] in ('copy', 'move'):
            return self.place_term(p, o['place'])
        if o['k'] == 'const':
            return const_term(o)
        return ('unknown',)

    def rv_term(self, p, rv, block):
        k = rv['k']
        if k == 'use':
            return self.op_term(p, rv['op'])
        if k in ('ref', 'rawptr'):
            return ('ref', self.place_term(p, rv['place']), bool(rv.get('mut')))
        if k == 'copy_for_deref':
            return self.place_term(p, rv['place'])
        if k == 'cast':
            return ('cast', self.op_term(p, rv['op']), rv['ty'])
        if k == 'bin':
            return ('bin', rv['op'], self.op_term(p, rv['a']), self.op_term(p, rv['b']))
        if k == 'un':
            return ('un', rv['op'], self.op_term(p, rv['a']))
        if k == 'discr':
            t = self.place_term(p, rv['place'])
            if t[0] == 'agg' and t[3] is not None:
                return ('int', t[3], None)
            return ('discr', t)
        if k == 'agg':
            a = rv['agg']
            ops = [self.op_term(p, o) for o in rv['ops']]
            if a == 'adt':
                fs = rv['fields']
                d = tuple((fs[i] if i < len(fs) else str(i), ops[i]) for i in range(len(ops)))
                return ('agg', rv['adt'] + '::' + rv['variant'], FrozenDict(d), rv['vidx'])
            if a == 'tuple':
                d = tuple((str(i), ops[i]) for i in range(len(ops)))
                return ('agg', 'tuple', FrozenDict(d), None)
            if a == 'array':
                return ('array', tuple(ops))
            if a in ('closure', 'coroutine', 'coroutine_closure'):
                ups = None
                cb = None
                return ('closure', rv['def'], tuple(ops))
            return ('agg', a, FrozenDict(tuple((str(i), ops[i]) for i in range(len(ops)))), None)
        if k == 'repeat':
            return ('repeat', self.op_term(p, rv['op']), rv['n'])
        return ('unknown', rv.get('text'))

    def iterates_fresh_empty_vec(self, p, it):
        """the iterator is `Vec::new().into_iter()` of a vector that nothing on this path could have filled (no `&mut` to it
        was ever handed to a call)"""
        while isinstance(it, tuple) and it and (it[0] in ('ref', 'deref') or (it[0] == 'call' and len(it[2]) == 1 and it[1].split('::')[-1] == 'into_iter')):
            it = it[1] if it[0] != 'call' else it[2][0]
        if not (isinstance(it, tuple) and it[0] == 'call' and it[1] in ('std::vec::Vec::<T>::new', 'alloc::vec::Vec::<T>::new') and not it[2]):
            return False
        for e in p.effects:
            if e[0] == 'call':
                for a in e[2]:
                    if isinstance(a, tuple) and a and a[0] == 'ref' and len(a) > 2 and a[2] and term_contains(a[1], it):
                        return False
            elif e[0] == 'write' and (term_contains(e[1], it) or term_contains(e[2], it)):
                return False
        return True

    def apply_closure_value(self, path, args, block, depth=0):
        """(result term, call effects) of `Fn::call(&closure, (a, b, ..))` when the closure is a known closure value of this
        crate whose body is one straight path without writes; else None"""
        facts = _TL.facts
        if facts is None or len(args) != 2 or getattr(self, '_apply_depth', 0) > 3:
            return None
        cl = args[0]
        while isinstance(cl, tuple) and cl and cl[0] in ('ref', 'deref'):
            cl = cl[1]
        if not (isinstance(cl, tuple) and len(cl) == 3 and cl[0] == 'closure'):
            return None
        cb = facts.body(cl[1])
        tup = args[1]
        if cb is None or cb.kind != 'closure' or not (isinstance(tup, tuple) and tup[0] == 'agg' and tup[1] == 'tuple'):
            return None
        env = {1: cl}
        for i in range(len(tup[2])):
            env[2 + i] = tup[2].get(str(i))
        if cb.arg_count != 1 + len(tup[2]):
            return None
        cs = Sym(cb, max_paths=16)
        cs._apply_depth = getattr(self, '_apply_depth', 0) + 1
        try:
            cs.run(env=env)
        except Lost:
            return None
        cps = cs.complete_paths()
        if len(cs.paths) != 1 or len(cps) != 1 or cps[0].conds or any(e[0] != 'call' for e in cps[0].effects):
            return None
        return cps[0].ret, [('call', e[1], e[2], block, e[4] if len(e) > 4 else None) for e in cps[0].effects]

    # -- writing ---------------------------------------------------------------------------------
    def assign(self, p, place, term, block):
        if not place['p']:
            p.env[place['l']] = term
            return
        # write through a projection: record in store (keyed by canonical place term) and as effect
        base = self.local_term(p, place['l'])
        t = base
        # compute the place term without consulting the store for the last projection
        for e in place['p'][:-1]:
            t = self.project(p, t, e)
        last = place['p'][-1]
        saved = p.store
        p.store = {}
        key = self.project(p, t, last)
        p.store = saved
        p.store[key] = term
        # a write into a local aggregate we know: update it in place when possible
        p.effects.append(('write', key, term, block))

    def track_mut_borrow(self, p, place, rv):
        """remember which place a `&mut` temporary borrows from (so that a callee mutating through it
        invalidates what we know about that place): refroot[tmp] = (root local, field projections)"""
        if place['p']:
            return
        dst = place['l']
        root = None
        if rv['k'] == 'ref' and rv.get('mut'):
            src = rv['place']
            if not any(e == '*' for e in src['p']):
                if all(isinstance(e, dict) and ('f' in e or 'dc' in e) for e in src['p']):
                    root = (src['l'], tuple(json.dumps(e, sort_keys=True) for e in src['p']))
            else:
                # reborrow through an existing &mut temporary: `&mut (*_q)` keeps _q's root
                if src['p'] == ['*']:
                    root = p.refroot.get(src['l'])
        elif rv['k'] == 'use' and rv['op']['k'] in ('move', 'copy') and not rv['op']['place']['p']:
            root = p.refroot.get(rv['op']['place']['l'])
        if root is not None:
            p.refroot[dst] = root
        elif dst in p.refroot:
            del p.refroot[dst]

    def mutate_roots(self, p, t, path, block, args):
        for i, a in enumerate(t['args']):
            if a['k'] in ('move', 'copy') and not a['place']['p']:
                root = p.refroot.get(a['place']['l'])
                if root is None:
                    continue
                rl, proj = root
                others = tuple(x for j, x in enumerate(args) if j != i)
                if not proj:
                    old = self.local_term(p, rl)
                    # ('mutated', previous value, callee, other argument terms, site)
                    p.env[rl] = ('mutated', old, path, others, block)
                else:
                    place = {'l': rl, 'p': [json.loads(e) for e in proj]}
                    saved = p.store
                    p.store = {}
                    key = self.place_term(p, place)
                    p.store = saved
                    old = p.store.get(key, key)
                    for k in list(p.store.keys()):
                        if term_contains(k, key):
                            del p.store[k]
                    p.store[key] = ('mutated', old, path, others, block)

    def kill_mut_args(self, p, args):
        for a in args:
            if a[0] == 'ref' and a[2]:
                root = a[1]
                for k in list(p.store.keys()):
                    if term_contains(k, root):
                        del p.store[k]

    # -- driving ---------------------------------------------------------------------------------
    def loop_info(self):
        """for every natural loop (back edge u -> h with h dominating u): header h and the bare locals
        assigned inside the loop body; pure await poll-loops are skipped"""
        if getattr(self, '_loops', None) is None:
            body = self.body
            dom = dominators(body)
            pm = body.pred_map()
            sm = body.succ_map()
            heads = {}
            bodies = []
            hb = {}
            for u in dom:
                for h in sm[u]:
                    if h in dom.get(u, ()):  # h dominates u: back edge
                        # natural loop body: h plus everything that reaches u without passing h
                        comp = {h, u}
                        st = [u]
                        while st:
                            x = st.pop()
                            if x == h:
                                continue
                            for q in pm[x]:
                                if q not in comp and q in dom:
                                    comp.add(q)
                                    st.append(q)
                        if all(is_await_block(body, x) for x in comp):
                            continue
                        assigned = set()
                        mutrefs = {}
                        for x in comp:
                            for stt in body.blocks[x]['stmts']:
                                if stt['k'] == 'assign' and not stt['place']['p']:
                                    assigned.add(stt['place']['l'])
                                # remember `_r = &mut _x` temporaries: a collection local grown inside the loop
                                # (vec.push(..) / map.insert(..)) is loop-carried state too
                                if stt['k'] == 'assign' and stt['rv']['k'] == 'ref' and stt['rv'].get('mut') and not stt['rv']['place']['p'] and not stt['place']['p']:
                                    mutrefs[stt['place']['l']] = stt['rv']['place']['l']
                            t = body.blocks[x]['term']
                            if t['k'] == 'call' and not t['dest']['p']:
                                assigned.add(t['dest']['l'])
                        for x in comp:
                            tt = body.blocks[x]['term']
                            if tt['k'] == 'call' and tt['args']:
                                cp = callee_path(tt) or ''
                                a0 = tt['args'][0]
                                if cp.split('::')[-1] in LOOP_MUTATORS and a0.get('k') in ('move', 'copy') and not a0['place']['p'] and a0['place']['l'] in mutrefs:
                                    assigned.add(mutrefs[a0['place']['l']])
                        heads.setdefault(h, set()).update(assigned)
                        bodies.append(comp)
                        hb.setdefault(h, set()).update(comp)
            self._loops = heads
            self._loop_bodies = bodies
            self._loop_of_head = hb
        return self._loops

    def run(self, start=0, env=None):
        body = self.body
        loops = self.loop_info()
        p0 = Path()
        if env:
            p0.env.update(env)
        stack = [(start, p0)]
        while stack:
            b, p = stack.pop()
            if len(self.paths) > self.max_paths:
                raise Lost('too many paths in %s' % body.path)
            if b in self.stop_at and p.blocks:
                p.end = 'stop'
                p.stop_block = b
                self.paths.append(p)
                continue
            if self.merge_loop_exits and p.blocks:
                prev = p.blocks[-1]
                if any(prev in comp and b not in comp for comp in self._loop_bodies):
                    if b in self._exit_seen:
                        p.end = 'merged'
                        self.paths.append(p)
                        continue
                    self._exit_seen.add(b)
            if b in p.blocks:
                # back edge
                if all(is_await_block(body, x) for x in p.blocks[p.blocks.index(b):]):
                    p.end = 'await-pending'
                else:
                    p.end = 'loop'
                p.loop_to = b
                self.paths.append(p)
                continue
            p.blocks.append(b)
            if b in loops:
                # entering a loop: variables carried around the loop are unknown afterwards
                for l in loops[b]:
                    if l in p.env:
                        p.env[l] = ('loopvar', l, body.local_name(l), b)
            blk = body.blocks[b]
            for s in blk['stmts']:
                if s['k'] == 'assign':
                    self.track_mut_borrow(p, s['place'], s['rv'])
                    self.assign(p, s['place'], self.rv_term(p, s['rv'], b), b)
                elif s['k'] == 'set_discr':
                    pass
            t = blk['term']
            k = t['k']
            if k in ('goto', 'false_edge', 'false_unwind'):
                stack.append((t['target'], p))
            elif k == 'drop':
                stack.append((t['target'], p))
            elif k == 'assert':
                c = self.op_term(p, t['cond'])
                p.effects.append(('assert', t['assert'], c, b))
                stack.append((t['target'], p))
            elif k == 'switch':
                d = self.op_term(p, t['discr'])
                dty = t['discr']['place']['ty'] if t['discr']['k'] in ('copy', 'move') else t['discr'].get('ty')
                vals = [v for v, _ in t['arms']]
                known = term_int(d)
                excluded = set()
                if known is None:
                    # the same value was already tested on this path (two matches on one discriminant): stay consistent
                    for c0 in p.conds:
                        if c0[0] == d:
                            if isinstance(c0[1], int):
                                known = c0[1]
                            elif isinstance(c0[1], tuple) and c0[1] and c0[1][0] == 'not':
                                excluded |= set(c0[1][1])
                prior = known is not None and term_int(d) is None
                for v, tb in t['arms']:
                    if v in excluded:
                        continue
                    if known is not None and known != v:
                        continue
                    q = p.clone()
                    if known is None:
                        q.conds.append((d, v, b, dty))
                    stack.append((tb, q))
                if known is None or known not in vals:
                    if body.blocks[t['otherwise']]['term']['k'] != 'unreachable':
                        q = p.clone()
                        if known is None:
                            q.conds.append((d, ('not', tuple(vals)), b, dty))
                        stack.append((t['otherwise'], q))
            elif k == 'call':
                c = callee(t)
                args = [self.op_term(p, a) for a in t['args']]
                if c is None:
                    path = None
                    fterm = self.op_term(p, t['func'])
                    ft0 = strip_transparent(fterm)
                    if isinstance(ft0, tuple) and ft0 and ft0[0] == 'fn':
                        # a function item that travelled as a value (captured / passed as a parameter): an ordinary call
                        path = ft0[1]
                        term = ('call', path, tuple(args), b)
                    else:
                        term = ('calli', fterm, tuple(args), b)
                else:
                    path = c.get('resolved') or c['path']
                    term = ('call', path, tuple(args), b)
                    term = simplify_call(term, c, t)
                    if path.split('::')[-1] == 'next' and len(args) == 1 and self.iterates_fresh_empty_vec(p, args[0]):
                        # `for x in Vec::new()` (a helper's early `return Vec::new()`): nothing to iterate
                        term = ('agg', 'std::option::Option::None', FrozenDict(()), 0)
                    applied = self.apply_closure_value(path, args, b) if c['path'].split('::')[-1] in ('call', 'call_mut', 'call_once') and c.get('trait', '').startswith('std::ops::Fn') else None
                    if applied is not None:
                        # calling a closure value that is known on this path (a predicate handed to a helper): its single
                        # straight path is evaluated in place
                        for e in applied[1]:
                            p.effects.append(e)
                        self.assign(p, t['dest'], applied[0], b)
                        if t['target'] is None:
                            p.end = 'diverge'
                            self.paths.append(p)
                        else:
                            stack.append((t['target'], p))
                        continue
                    summ = inline_summary(path) if (c.get('local') or c.get('resolved_local')) else None
                    if summ is not None:
                        # a new straight-line helper: splice its effects and use its return value
                        for e in summ[1]:
                            if e[0] == 'call':
                                p.effects.append(('call', e[1], tuple(subst_params(a, args) for a in e[2]), b, e[4]))
                            else:
                                p.effects.append(('write', subst_params(e[1], args), subst_params(e[2], args), b))
                        term = subst_params(summ[0], args)
                        self.kill_mut_args(p, args)
                        if t['target'] is None:
                            p.end = 'diverge'
                            self.paths.append(p)
                        else:
                            self.assign(p, t['dest'], term, b)
                            stack.append((t['target'], p))
                        continue
                p.effects.append(('call', path, tuple(args), b, c))
                self.kill_mut_args(p, args)
                self.mutate_roots(p, t, path, b, args)
                if t['target'] is None:
                    p.end = 'diverge'
                    self.paths.append(p)
                else:
                    self.assign(p, t['dest'], term, b)
                    stack.append((t['target'], p))
            elif k == 'yield':
                # suspension point: continue at resume
                stack.append((t['target'], p))
            elif k == 'return':
                p.end = 'return'
                p.ret = self.local_term(p, 0)
                self.paths.append(p)
            elif k == 'unreachable':
                p.end = 'unreachable'
                self.paths.append(p)
            else:
                p.end = k
                self.paths.append(p)
        return self.paths

    def complete_paths(self):
        return [p for p in self.paths if p.end == 'return']


class FrozenDict(tuple):
    """tuple of (key, value) pairs with dict-like access (hashable)"""

    def get(self, k, d=None):
        for kk, v in self:
            if kk == k:
                return v
        return d

    def __contains__(self, k):
        return any(kk == k for kk, _ in self)

    def __getitem__(self, k):
        if isinstance(k, int):
            return tuple.__getitem__(self, k)
        for kk, v in self:
            if kk == k:
                return v
        raise KeyError(k)

    def keys(self):
        return [k for k, _ in self]


def term_contains(t, sub):
    if t == sub:
        return True
    if isinstance(t, tuple):
        return any(term_contains(x, sub) for x in t if isinstance(x, tuple))
    return False


def term_walk(t):
    yield t
    if isinstance(t, tuple):
        for x in t:
            if isinstance(x, tuple):
                for y in term_walk(x):
                    yield y


def term_int(t):
    """constant-fold a term to an int if it is built from integer literals only"""
    if not isinstance(t, tuple):
        return None
    if t[0] == 'int':
        return t[1]
    if t[0] == 'cast':
        return term_int(t[1])
    if t[0] == 'call' and isinstance(t[1], str) and t[1].split('::')[-1] == 'from' and 'From<bool>' in t[1] and len(t[2]) == 1:
        return term_int(t[2][0])      # usize::from(true) == 1
    if t[0] == 'call' and isinstance(t[1], str) and t[1].split('::')[-1] == 'len' and len(t[2]) == 1:
        a = t[2][0]
        while isinstance(a, tuple) and a and a[0] in ('ref', 'deref', 'cast'):
            a = a[1]
        if isinstance(a, tuple) and len(a) == 2 and a[0] == 'array' and isinstance(a[1], tuple):
            return len(a[1])          # length of an array literal
        if isinstance(a, tuple) and len(a) == 2 and a[0] == 'named' and _TL.facts is not None:
            cv = _TL.facts.const_value(a[1])
            if isinstance(cv, (list, tuple)):
                return len(cv)        # length of a named array constant
        return None
    if t[0] == 'bin':
        a, b = term_int(t[2]), term_int(t[3])
        if a is None or b is None:
            return None
        op = t[1].replace('WithOverflow', '')
        try:
            return {
                'Add': lambda: a + b, 'Sub': lambda: a - b, 'Mul': lambda: a * b,
                'Div': lambda: a // b, 'Rem': lambda: a % b, 'Shl': lambda: a << b, 'Shr': lambda: a >> b,
                'BitAnd': lambda: a & b, 'BitOr': lambda: a | b, 'BitXor': lambda: a ^ b,
                'Eq': lambda: int(a == b), 'Ne': lambda: int(a != b), 'Lt': lambda: int(a < b),
                'Le': lambda: int(a <= b), 'Gt': lambda: int(a > b), 'Ge': lambda: int(a >= b),
            }[op]()
        except Exception:
            return None
    if t[0] == 'un' and t[1] == 'Not':
        a = term_int(t[2])
        return None if a is None else int(not a)
    return None


def position_payload(off):
    """the `position(..)` call whose found index `off` is: `(position(..) as Some).0` or `position(..).ok_or(e)?`; else None"""
    off = strip_transparent(off)
    if not (isinstance(off, tuple) and len(off) == 3 and off[0] == 'field' and off[2] == '0' and isinstance(off[1], tuple) and off[1][0] == 'downcast' and off[1][2] in ('Some', 'Continue')):
        return None
    pc = off[1][1]
    while isinstance(pc, tuple) and pc and pc[0] in ('ref', 'deref'):
        pc = pc[1]
    if off[1][2] == 'Continue':
        if not (isinstance(pc, tuple) and pc[0] == 'call' and pc[1].endswith('Try>::branch') and len(pc[2]) == 1):
            return None
        pc = strip_transparent(pc[2][0])
        if not (isinstance(pc, tuple) and pc[0] == 'call' and pc[1].split('::')[-1] in ('ok_or', 'ok_or_else') and pc[1].startswith('std::option::Option')):
            return None
        pc = strip_transparent(pc[2][0])
    if isinstance(pc, tuple) and pc[0] == 'call' and pc[1].split('::')[-1] in ('position',) and pc[2]:
        return pc
    return None


def iterated_slice(it):
    """the slice term an iterator term runs over (through iter / into_iter / by_ref / copied / cloned and references)"""
    while isinstance(it, tuple) and it and (it[0] in ('ref', 'deref', 'cast') or (it[0] == 'call' and len(it[2]) == 1 and it[1].split('::')[-1] in ('iter', 'into_iter', 'by_ref', 'copied', 'cloned'))):
        it = it[1] if it[0] != 'call' else it[2][0]
    return it


def found_offset_sum(a, b):
    """`start + offset` where offset is the payload of `position(..)` run over the part of a slice that begins at `start`
    (`x.iter().skip(start)`, `x.get(start..)?.iter()`, `x[start..].iter()`): an element exists at start + offset, so the
    sum is a valid index of x (< isize::MAX) whatever `start` is.  Returns the slice term x, else None."""
    for start, off in ((a, b), (b, a)):
        pc = position_payload(off)
        if pc is None:
            continue
        it = pc[2][0]
        while isinstance(it, tuple) and it and (it[0] in ('ref', 'deref', 'cast') or (it[0] == 'call' and len(it[2]) == 1 and it[1].split('::')[-1] in ('iter', 'into_iter', 'by_ref', 'copied', 'cloned'))):
            it = it[1] if it[0] != 'call' else it[2][0]
        st = strip_transparent(start)
        if not isinstance(it, tuple) or not it:
            continue
        if it[0] == 'call' and it[1].split('::')[-1] == 'skip' and len(it[2]) == 2 and strip_transparent(it[2][1]) == st:
            return strip_transparent(it[2][0])
        sub = None
        if it[0] == 'call' and it[1].split('::')[-1] in ('unwrap_or_default',) and it[1].startswith('std::option::Option') and len(it[2]) == 1:
            # `x.get(start..).unwrap_or_default()`: the part from `start` on, or nothing; an element found in it lies in x
            g = it[2][0]
            while isinstance(g, tuple) and g and g[0] in ('ref', 'deref'):
                g = g[1]
            if isinstance(g, tuple) and g[0] == 'call' and g[1].split('::')[-1] == 'get' and g[1].startswith('core::slice::') and len(g[2]) == 2:
                sub = g
        elif it[0] == 'field' and it[2] == '0' and isinstance(it[1], tuple) and it[1][0] == 'downcast' and it[1][2] == 'Some':
            g = it[1][1]
            while isinstance(g, tuple) and g and g[0] in ('ref', 'deref'):
                g = g[1]
            if isinstance(g, tuple) and g[0] == 'call' and g[1].split('::')[-1] == 'get' and g[1].startswith('core::slice::') and len(g[2]) == 2:
                sub = g
        elif it[0] == 'call' and it[1].split('::')[-1] == 'index' and len(it[2]) == 2:
            sub = it
        if sub is not None:
            r = sub[2][1]
            if isinstance(r, tuple) and r[0] == 'agg' and r[1].startswith('std::ops::RangeFrom') and strip_transparent(r[2].get('start')) == st:
                return strip_transparent(sub[2][0])
    return None


def term_duration_ms(t, facts=None):
    """fold a term to milliseconds if it is a Duration constant expression"""
    if not isinstance(t, tuple):
        return None
    if t[0] == 'ref':
        return term_duration_ms(t[1], facts)
    if t[0] == 'named' and facts is not None:
        return facts.duration_ms(t[1])
    if t[0] == 'call':
        n = t[1]
        if n.endswith('Duration::from_secs'):
            v = term_int(t[2][0])
            return None if v is None else v * 1000
        if n.endswith('Duration::from_millis'):
            return term_int(t[2][0])
        if n.endswith('Duration::from_mins'):
            v = term_int(t[2][0])
            return None if v is None else v * 60000
    return None


def simplify_call(term, c, t):
    """value-preserving std calls are made transparent so that flows can be read off terms"""
    path = term[1]
    args = term[2]
    ex = t.get('ex', [])
    # await: poll(pin(ref(ref(into_future(F))))).Ready.0 is turned into ('await', F) at the downcast;
    # here we only tag the poll
    if c['path'].endswith('Future::poll') and 'd:Await' in ex:
        fut = args[0]
        # strip Pin::new_unchecked(&mut *&mut X)
        while True:
            if fut[0] == 'call' and fut[1].endswith('Pin::<&mut T>::new_unchecked') or (fut[0] == 'call' and 'new_unchecked' in fut[1]):
                fut = fut[2][0]
            elif fut[0] == 'ref':
                fut = fut[1]
            elif fut[0] == 'call' and fut[1].endswith('IntoFuture::into_future'):
                fut = fut[2][0]
            else:
                break
        return ('poll', fut, term[3])
    # std conversions applied to a value whose variant is already known on this path (after `.filter(..)`, a match arm
    # that built Some/None, ...): compute the result instead of forking on it later
    last = path.split('::')[-1]
    if last == 'from_residual' and (c.get('self_ty') or '').startswith('std::option::Option<'):
        # `?` on an Option inside a function returning Option: the early exit is None
        return ('agg', 'std::option::Option::None', FrozenDict(()), 0)
    if last in ('eq', 'ne') and len(args) == 2 and c.get('trait') == 'std::cmp::PartialEq':
        # `Variant == Variant` of a field-less enum with derived PartialEq, both sides known on this path
        x, y = strip_transparent(args[0]), strip_transparent(args[1])
        if all(isinstance(z, tuple) and z and z[0] == 'agg' and isinstance(z[1], str) and len(z) > 3 and z[3] is not None and len(z[2]) == 0 for z in (x, y)):
            ax, ay = x[1].rsplit('::', 1)[0], y[1].rsplit('::', 1)[0]
            facts = _TL.facts
            derived = facts is not None and any(im.get('derived') and im.get('trait') == 'std::cmp::PartialEq' and im.get('self_ty') == ax for im in facts.impls)
            if ax == ay and derived:
                same = x[3] == y[3]
                return ('int', int(same == (last == 'eq')), None)
    if c['path'].endswith('Try::branch') and args and isinstance(args[0], tuple) and args[0] and args[0][0] == 'call' and isinstance(args[0][1], str) \
            and args[0][1].startswith('<std::result::Result<') and args[0][1].endswith('::from_residual') and path.startswith('<std::result::Result<'):
        # `?` applied to what an inner `?` produced on its error exit: Result::from_residual always builds an Err
        return ('agg', 'std::ops::ControlFlow::Break', FrozenDict((('0', args[0]),)), 1)
    if args and isinstance(args[0], tuple) and args[0] and args[0][0] == 'agg' and isinstance(args[0][1], str):
        a0 = args[0]
        if a0[1] in ('std::option::Option::Some', 'std::option::Option::None'):
            some = a0[1].endswith('Some')
            x = a0[2].get('0') if some else None
            if last == 'ok_or' and len(args) == 2 and path.startswith('std::option::Option'):
                return ('agg', 'std::result::Result::Ok', FrozenDict((('0', x),)), 0) if some else ('agg', 'std::result::Result::Err', FrozenDict((('0', args[1]),)), 1)
            if last in ('is_some', 'is_none') and path.startswith('std::option::Option'):
                return ('int', int(some == (last == 'is_some')), None)
            if last == 'unwrap_or' and len(args) == 2 and path.startswith('std::option::Option'):
                return x if some else args[1]
            if c['path'].endswith('Try::branch'):
                return ('agg', 'std::ops::ControlFlow::Continue', FrozenDict((('0', x),)), 0) if some else ('agg', 'std::ops::ControlFlow::Break', FrozenDict((('0', a0),)), 1)
        if a0[1] in ('std::result::Result::Ok', 'std::result::Result::Err'):
            okv = a0[1].endswith('Ok')
            x = a0[2].get('0')
            if last in ('is_ok', 'is_err') and path.startswith('std::result::Result'):
                return ('int', int(okv == (last == 'is_ok')), None)
            if last == 'unwrap_or' and len(args) == 2 and path.startswith('std::result::Result'):
                return x if okv else args[1]
            if last == 'ok' and path.startswith('std::result::Result') and len(args) == 1:
                return ('agg', 'std::option::Option::Some', FrozenDict((('0', x),)), 1) if okv else ('agg', 'std::option::Option::None', FrozenDict(()), 0)
            if c['path'].endswith('Try::branch'):
                return ('agg', 'std::ops::ControlFlow::Continue', FrozenDict((('0', x),)), 0) if okv else ('agg', 'std::ops::ControlFlow::Break', FrozenDict((('0', a0),)), 1)
    return term


def strip_transparent(t):
    """strip value-preserving wrappers: refs, derefs, clone/copied/to_vec/into/as_ref/deref/to_owned/borrow"""
    TRANSPARENT = ('::clone', '::copied', '::cloned', '::to_vec', '::into', '::as_ref', '::deref', '::deref_mut',
                   '::to_owned', '::borrow', '::as_mut', '::from', '::into_iter', '::iter', '::as_slice', '::into_owned',
                   '::as_bytes', '::as_str', '::into_vec', '::into_inner', '::by_ref')
    while isinstance(t, tuple):
        if t[0] in ('ref', 'deref', 'cast'):
            t = t[1]
        elif t[0] == 'call' and len(t[2]) == 1 and any(t[1].endswith(s) for s in TRANSPARENT):
            t = t[2][0]
        elif t[0] == 'field' and t[2] == '0' and isinstance(t[1], tuple) and t[1][0] == 'downcast' and t[1][2] == 'Ready' and t[1][1][0] == 'poll':
            t = ('await', t[1][1][1])
        else:
            break
    return t


def fmt(t, depth=0):
    """compact human rendering of a term"""
    if not isinstance(t, tuple):
        return str(t)
    if depth > 6:
        return '…'
    if not t:
        return '()'
    k = t[0]
    if k == 'int':
        return str(t[1]) if t[2] is None else '%s(=%d)' % (t[2].split('::')[-1], t[1])
    if k == 'str':
        return repr(t[1])
    if k == 'param':
        return t[2] or 'arg%d' % t[1]
    if k == 'local':
        return t[2] or '_%d' % t[1]
    if k == 'field':
        return '%s.%s' % (fmt(t[1], depth + 1), t[2])
    if k == 'deref':
        return '*%s' % fmt(t[1], depth + 1)
    if k == 'ref':
        return '&%s' % fmt(t[1], depth + 1)
    if k == 'downcast':
        return '(%s as %s)' % (fmt(t[1], depth + 1), t[2])
    if k == 'discr':
        return 'discr(%s)' % fmt(t[1], depth + 1)
    if k == 'call':
        return '%s(%s)' % (short(t[1]), ', '.join(fmt(a, depth + 1) for a in t[2]))
    if k == 'calli':
        return '(%s)(%s)' % (fmt(t[1], depth + 1), ', '.join(fmt(a, depth + 1) for a in t[2]))
    if k == 'poll':
        return 'poll(%s)' % fmt(t[1], depth + 1)
    if k == 'await':
        return 'await(%s)' % fmt(t[1], depth + 1)
    if k == 'bin':
        return '%s(%s, %s)' % (t[1], fmt(t[2], depth + 1), fmt(t[3], depth + 1))
    if k == 'un':
        return '%s(%s)' % (t[1], fmt(t[2], depth + 1))
    if k == 'cast':
        return '%s as %s' % (fmt(t[1], depth + 1), t[2])
    if k == 'agg':
        return '%s{%s}' % (short(t[1]), ', '.join('%s: %s' % (kk, fmt(v, depth + 1)) for kk, v in t[2]))
    if k == 'closure':
        return 'closure %s' % short(t[1])
    if k == 'fn':
        return 'fn %s' % short(t[1])
    if k == 'named':
        return short(t[1])
    if k == 'array':
        return '[%s]' % ', '.join(fmt(a, depth + 1) for a in t[1])
    return '%s(%s)' % (k, ', '.join(fmt(a, depth + 1) if isinstance(a, tuple) else str(a) for a in t[1:]))


def short(path):
    if path is None:
        return '?'
    parts = path.split('::')
    return '::'.join(parts[-2:]) if len(parts) > 2 else path


# ------------------------------------------------------------------------------------------------
# literals and decision tables

CMP_CALLS = {
    'std::cmp::PartialOrd::lt': 'lt', 'std::cmp::PartialOrd::le': 'le', 'std::cmp::PartialOrd::gt': 'gt',
    'std::cmp::PartialOrd::ge': 'ge', 'std::cmp::PartialEq::eq': 'eq', 'std::cmp::PartialEq::ne': 'ne',
}


def cmp_kind_of_call(path):
    """'lt'/'le'/… if the (possibly resolved) path is a comparison operator method"""
    for suffix, k in (('::lt', 'lt'), ('::le', 'le'), ('::gt', 'gt'), ('::ge', 'ge'), ('::eq', 'eq'), ('::ne', 'ne')):
        if path.endswith(suffix) and ('PartialOrd' in path or 'PartialEq' in path or 'cmp::' in path):
            return k
    return None


def literal(cond):
    """normalise a path condition (term, value, block) to (rel, lhs, rhs, truth):
    rel in {'lt','eq','variant','bool'}; a>b => lt(b,a); a>=b => !lt(a,b); a<=b => !lt(b,a); a!=b => !eq(a,b)"""
    t, v = cond[0], cond[1]
    # truth of "t is non-zero / equals v"
    if isinstance(v, tuple) and v[0] == 'not':
        excluded = v[1]
    else:
        excluded = None
    t0 = t
    neg = False
    while True:
        if t[0] == 'un' and t[1] == 'Not':
            neg = not neg
            t = t[2]
            continue
        if t[0] in ('cast',):
            t = t[1]
            continue
        break
    kind = None
    if t[0] == 'bin' and t[1] in ('Lt', 'Le', 'Gt', 'Ge', 'Eq', 'Ne'):
        kind = t[1].lower()
        a, b = t[2], t[3]
    elif t[0] == 'call' and cmp_kind_of_call(t[1]) and len(t[2]) == 2:
        kind = cmp_kind_of_call(t[1])
        a, b = t[2]
    if kind is not None:
        # boolean truth of the comparison
        if excluded is not None:
            if excluded == (0,):
                truth = True
            elif excluded == (1,):
                truth = False
            else:
                return ('opaque', t0, v, None)
        else:
            truth = (v != 0)
        if neg:
            truth = not truth
        a = strip_transparent(a)
        b = strip_transparent(b)
        if kind == 'gt':
            return ('lt', b, a, truth)
        if kind == 'ge':
            return ('lt', a, b, not truth)
        if kind == 'le':
            return ('lt', b, a, not truth)
        if kind == 'ne':
            return ('eq', a, b, not truth)
        return (kind, a, b, truth)
    cty = cond[3] if len(cond) > 3 else None
    if kind is None and t[0] != 'discr' and cty is not None and cty != 'bool' and not neg:
        # switch over an integer value (match on a number)
        return ('int', strip_transparent(t), ('not', excluded) if excluded is not None else v, True)
    if t[0] == 'discr':
        # variant test: value is the discriminant
        if excluded is not None:
            return ('variant', strip_transparent(t[1]), ('not', excluded), True)
        return ('variant', strip_transparent(t[1]), v, True)
    # plain boolean
    if excluded is not None:
        if excluded == (0,):
            truth = True
        elif excluded == (1,):
            truth = False
        else:
            return ('opaque', t0, v, None)
    else:
        truth = (v != 0)
    if neg:
        truth = not truth
    return ('bool', strip_transparent(t), None, truth)


def looks_bool(t):
    """is the term a boolean observation (predicate call, comparison, negation)?"""
    t = strip_transparent(t)
    if not isinstance(t, tuple) or not t:
        return False
    if t[0] == 'un' and t[1] == 'Not':
        return looks_bool(t[2])
    if t[0] == 'bin' and t[1] in ('Lt', 'Le', 'Gt', 'Ge', 'Eq', 'Ne'):
        return True
    if t[0] == 'call' and isinstance(t[1], str):
        last = t[1].split('::')[-1]
        return last.startswith('is_') or last in ('contains', 'contains_key', 'any', 'all', 'eq', 'ne', 'lt', 'le', 'gt', 'ge', 'starts_with', 'ends_with') or bool(cmp_kind_of_call(t[1]))
    return False


def bool_eq_alternatives(c):
    """[[cond, ..], ..]: the cases of a condition `a == b` / `a != b` over two boolean observations; else [[c]]"""
    lit = literal(c)
    if lit[0] == 'eq' and lit[3] is not None and looks_bool(lit[1]) and looks_bool(lit[2]):
        def mk(t, val):
            return (t, ('not', (0,)) if val else 0, c[2] if len(c) > 2 else -1, 'bool')
        a, b = lit[1], lit[2]
        if lit[3]:
            return [[mk(a, True), mk(b, True)], [mk(a, False), mk(b, False)]]
        return [[mk(a, True), mk(b, False)], [mk(a, False), mk(b, True)]]
    return [[c]]


class Table:
    """decision table extracted from the complete paths of a Sym run.
    classify(literal, cond) -> (atom_name, allowed) where allowed is a bool or a set of domain values
                             | None (ignore the condition) | 'infeasible'; may raise Lost"""

    def __init__(self, rows):
        self.rows = rows  # list of (dict atom->frozenset(allowed values), outcome, path)

    @staticmethod
    def build(paths, classify, outcome):
        rows = []
        expanded = []
        for p in paths:
            # a condition that compares two boolean observations (`a.is_x() == b.is_x()`) is split into its cases
            alts = [[]]
            for c in p.conds:
                ca = bool_eq_alternatives(c)
                alts = [a + x for a in alts for x in ca]
                if len(alts) > 64:
                    raise Lost('too many boolean cases on one path')
            for a in alts:
                expanded.append((p, a))
        for p, conds in expanded:
            val = {}
            consistent = True
            for c in conds:
                lit = literal(c)
                r = classify(lit, c)
                if r is None:
                    continue
                if r == 'infeasible':
                    consistent = False
                    break
                atom, allowed = r
                if isinstance(allowed, bool):
                    allowed = {allowed}
                allowed = frozenset(allowed)
                if atom in val:
                    allowed = val[atom] & allowed
                if not allowed:
                    consistent = False  # infeasible path (same atom tested twice with different outcome)
                    break
                val[atom] = allowed
            if not consistent:
                continue
            rows.append((val, outcome(p), p))
        return Table(rows)

    def lookup(self, valuation):
        """outcomes of all rows consistent with a total valuation"""
        outs = []
        for val, out, p in self.rows:
            if all(valuation.get(a) in allowed for a, allowed in val.items()):
                outs.append(out)
        return outs

    def compare(self, domains, expected, consistent=lambda v: True):
        """domains: dict atom -> list of values (bool atoms: [False, True]); expected(valuation)->outcome.
        returns (mismatches, number of valuations checked); a valuation with no row is a mismatch"""
        atoms = list(domains.keys())
        bad = []
        count = 0
        for val, out, p in self.rows:
            for a in val:
                if a not in domains:
                    bad.append(({'unexpected condition': a}, [out], None))

        def rec(i, v):
            nonlocal count
            if i == len(atoms):
                if not consistent(v):
                    return
                count += 1
                got = self.lookup(v)
                exp = expected(v)
                if not got or any(g != exp for g in got):
                    bad.append((dict(v), got, exp))
                return
            for x in domains[atoms[i]]:
                v[atoms[i]] = x
                rec(i + 1, v)
            del v[atoms[i]]

        rec(0, {})
        return bad, count


BOOL = [False, True]


def writes_of(path):
    return [e for e in path.effects if e[0] == 'write']


def calls_of(path, suffix=None):
    out = [e for e in path.effects if e[0] == 'call']
    if suffix is not None:
        out = [e for e in out if e[1] is not None and e[1].endswith(suffix)]
    return out


# ------------------------------------------------------------------------------------------------
# small term matchers


def root_of(t):
    """strip field / deref / downcast / ref / index projections down to the root term"""
    while isinstance(t, tuple) and t[0] in ('field', 'deref', 'downcast', 'ref', 'index', 'cast'):
        t = t[1]
    return t


def is_param(t, name=None, index=None):
    return isinstance(t, tuple) and t[0] == 'param' and (name is None or t[2] == name) and (index is None or t[1] == index)


def field_chain(t):
    """names of the field projections from the root outwards, ignoring derefs/refs/downcasts:
    (*self).handle.addr -> ['handle', 'addr']"""
    out = []
    while isinstance(t, tuple) and t[0] in ('field', 'deref', 'downcast', 'ref', 'cast'):
        if t[0] == 'field':
            out.append(t[2])
        t = t[1]
    out.reverse()
    return out


def is_field_of_param(t, pname, fields):
    """t is param.fields… modulo refs/derefs/downcasts"""
    if isinstance(fields, str):
        fields = [fields]
    r = root_of(t)
    return is_param(r, pname) and field_chain(t) == list(fields)


def option_is_some(v):
    """truth of `is Some` from a variant literal value on an Option (None = 0, Some = 1)"""
    if v == 1:
        return True
    if v == 0:
        return False
    if isinstance(v, tuple) and v[0] == 'not':
        if tuple(v[1]) == (1,):
            return False
        if tuple(v[1]) == (0,):
            return True
    return None


def agg_variant(t):
    """'Good' for ('agg', 'node::NodeStatus::Good', …)"""
    if isinstance(t, tuple) and t[0] == 'agg':
        return t[1].split('::')[-1]
    return None


def find_calls(t, suffix):
    return [x for x in term_walk(t) if isinstance(x, tuple) and x and x[0] == 'call' and x[1].endswith(suffix)]


def prefix_count(sym, lv):
    """`let mut n = 0; for x in SRC { if !P(x) { break } n += 1 }` - the loop form of `SRC.take_while(P).count()`.
    lv = ('loopvar', local, name, head).  returns dict(src, elem test literals of counting iterations, of leaving iterations)"""
    from . import panics
    if not (isinstance(lv, tuple) and lv and lv[0] == 'loopvar'):
        raise Lost('not a loop counter')
    body = sym.body
    sym.loop_info()
    comp = sym._loop_of_head.get(lv[3])
    if not comp:
        raise Lost('loop not found')
    ds = panics.defs_of(body, lv[1])
    inits = [d for d in ds if d[2] not in comp]
    steps = [d for d in ds if d[2] in comp]
    if len(inits) != 1 or not (inits[0][0] == 'assign' and inits[0][1]['k'] == 'use' and inits[0][1]['op'].get('k') == 'const' and inits[0][1]['op'].get('int') == 0):
        raise Lost('the counter does not start at 0')
    for d in steps:
        good = False
        if d[0] == 'assign' and d[1]['k'] == 'use' and d[1]['op'].get('k') in ('move', 'copy'):
            pl = d[1]['op']['place']
            if len(pl['p']) == 1 and isinstance(pl['p'][0], dict) and pl['p'][0].get('n') == '0':
                dd = panics.defs_of(body, pl['l'])
                if len(dd) == 1 and dd[0][0] == 'assign' and dd[0][1]['k'] == 'bin' and dd[0][1]['op'] == 'AddWithOverflow':
                    a_, b_ = dd[0][1]['a'], dd[0][1]['b']
                    good = a_.get('k') in ('copy', 'move') and a_['place']['l'] == lv[1] and not a_['place']['p'] and b_.get('k') == 'const' and b_.get('int') == 1
        if not good:
            raise Lost('the counter is not advanced by exactly one')
    if not steps:
        raise Lost('the counter is never advanced')
    step_blocks = {d[2] for d in steps}
    src = None
    site = None
    counting, leaving = [], []
    for q in sym.paths:
        if lv[3] not in q.blocks:
            continue
        inloop = [c for c in q.conds if c[2] is not None and c[2] in comp]
        nexts = [c for c in inloop if literal(c)[0] == 'variant' and literal(c)[1][0] == 'call' and literal(c)[1][1].split('::')[-1] == 'next']
        if not nexts or option_is_some(literal(nexts[0])[2]) is not True:
            continue
        call = literal(nexts[0])[1]
        if site is None:
            site = call[3]
            it = strip_transparent(call[2][0])
            while isinstance(it, tuple) and it and it[0] == 'call' and it[1].split('::')[-1] in ('into_iter', 'iter'):
                it = strip_transparent(it[2][0])
            src = it
        elif call[3] != site:
            raise Lost('two iterators drive the counting loop')
        lits = [c for c in inloop if c is not nexts[0]]
        stepped = any(bb in step_blocks for bb in q.blocks)
        # does the path stay in the loop after the element test?
        last_in = max(i for i, bb in enumerate(q.blocks) if bb in comp)
        stays = (q.end == 'loop' and last_in == len(q.blocks) - 1)
        if stepped and stays:
            counting.append(lits)
        elif not stepped and not stays:
            leaving.append(lits)
        elif stepped and not stays:
            raise Lost('the loop is left after counting an element')
        else:
            raise Lost('an element is skipped without being counted')
    if src is None or not counting:
        raise Lost('no counting iteration')

    def is_elem(t):
        t = strip_transparent(t)
        while isinstance(t, tuple) and t and t[0] in ('ref', 'deref'):
            t = strip_transparent(t[1])
        return (isinstance(t, tuple) and len(t) == 3 and t[0] == 'field' and t[2] == '0' and isinstance(t[1], tuple) and t[1][0] == 'downcast' and t[1][2] == 'Some'
                and isinstance(t[1][1], tuple) and t[1][1][0] == 'call' and t[1][1][3] == site)
    return {'src': src, 'counting': counting, 'leaving': leaving, 'is_elem': is_elem}


def loop_root(t):
    """the loop-carried collection behind a term: `mutated(.. mutated(loopvar) ..)` (a path that leaves the loop right
    after its last push) -> the loopvar; else None"""
    t = strip_transparent(t)
    while isinstance(t, tuple) and t and t[0] == 'mutated':
        t = strip_transparent(t[1])
    return t if isinstance(t, tuple) and t and t[0] == 'loopvar' else None


def loop_stream(sym, lv):
    """A collection local that is grown inside a loop (`for x in SRC { if P(x) { v.push(F(x)); } }`), described like
    the iterator pipeline it stands for.  lv = ('loopvar', local, name, head).
    returns dict(src=iterated source term, elem=loop element term, rows=[(literals tested on the iteration before the
    push, pushed term | None)], cap=term | None, nexts=the next() call term); raises Lost when the loop is not of that shape"""
    if not (isinstance(lv, tuple) and lv and lv[0] == 'loopvar'):
        raise Lost('not a loop-built collection')
    head = lv[3]
    sym.loop_info()
    comp = sym._loop_of_head.get(head)
    if not comp:
        raise Lost('loop not found')
    rows = []
    src = None
    elem = None
    nxt = None
    cap = None
    cap_seen = []
    cap_pre = []
    for p in sym.paths:
        if head not in p.blocks:
            continue
        order = {b: i for i, b in enumerate(p.blocks)}
        inloop = [c for c in p.conds if c[2] is not None and c[2] in comp]
        nexts = [c for c in inloop if literal(c)[0] == 'variant' and literal(c)[1][0] == 'call' and literal(c)[1][1].split('::')[-1] == 'next']
        if not nexts:
            continue
        lit = literal(nexts[0])
        if option_is_some(lit[2]) is not True:
            continue      # the exit of the loop
        call = lit[1]
        it = strip_transparent(call[2][0])
        while isinstance(it, tuple) and it and it[0] == 'call' and it[1].split('::')[-1] == 'into_iter':
            it = strip_transparent(it[2][0])
        if src is None:
            src, nxt = it, call
        elif call[3] != nxt[3]:
            raise Lost('two iterators drive the loop')
        pushes = [e for e in p.effects if e[0] == 'call' and e[1] and e[1].split('::')[-1] in ('push', 'push_back', 'insert') and e[3] in comp and root_of(strip_transparent(e[2][0])) == lv]
        others = [e for e in p.effects if e[0] == 'call' and e[1] and e[1].split('::')[-1] in LOOP_MUTATORS and e[3] in comp and root_of(strip_transparent(e[2][0])) == lv and e not in pushes]
        if len(pushes) > 1 or others:
            raise Lost('the collection is changed more than once per iteration')
        pb = order.get(pushes[0][3], 10 ** 9) if pushes else 10 ** 9
        lits = []
        skip_row = False
        for c in inloop:
            if c is nexts[0]:
                continue
            l2 = literal(c)
            lens = [x for x in (find_calls(l2[1], '::len') + (find_calls(l2[2], '::len') if isinstance(l2[2], tuple) else [])) if x[1].split('::')[-1] == 'len'] if l2[0] in ('eq', 'lt') else []
            if lens:
                len_first = bool(find_calls(l2[1], '::len'))
                other = l2[2] if len_first else l2[1]
                # "full" on this path?  eq(len, N) true / lt(len, N) false / lt(N, len) true
                full = (l2[3] is True) if l2[0] == 'eq' else ((l2[3] is False) if len_first else (l2[3] is True))
                continuing = p.end == 'loop' and all(bb in comp for bb in p.blocks[order.get(c[2], 0):])
            if order.get(c[2], 0) > pb:
                # tested after the push: may only be the capacity test `v.len() == N` that ends the loop
                if lens:
                    cap_seen.append((other, full, continuing))
                    continue
                raise Lost('the iteration branches after the push')
            if lens and root_of(strip_transparent(lens[0][2][0])) == lv:
                # the same capacity test placed before the element is looked at: `if v.len() == N { break }`
                cap_pre.append((other, full, continuing))
                if full:
                    skip_row = True
                continue
            lits.append(c)
        if skip_row:
            continue
        p.loop_elem = ('field', ('downcast', call, 'Some'), '0')
        rows.append((lits, strip_transparent(pushes[0][2][1]) if pushes else None, p))
    if src is None or not rows:
        raise Lost('no iteration path')
    # the cut-off counts only if the loop is really left when the collection is full and only goes on when it is not
    if cap_seen and all((not full) == continuing for _, full, continuing in cap_seen) and len({fmt(o) for o, _, _ in cap_seen}) == 1 \
            and sum(1 for r in rows if r[1] is not None) == len(cap_seen):
        cap = cap_seen[0][0]
    elif cap_pre and not cap_seen and all((not full) == continuing for _, full, continuing in cap_pre) and len({fmt(o) for o, _, _ in cap_pre}) == 1 \
            and sum(1 for _, full, _ in cap_pre if not full) == len(rows) and any(full for _, full, _ in cap_pre):
        cap = cap_pre[0][0]
    elif cap_pre:
        raise Lost('a capacity test that does not simply end the loop')
    elem = ('field', ('downcast', nxt, 'Some'), '0')
    site = nxt[3]

    def is_elem(t):
        # the element of this loop, whatever the values flowing into the iterator on a particular path
        t = strip_transparent(t)
        return (isinstance(t, tuple) and len(t) == 3 and t[0] == 'field' and t[2] == '0' and isinstance(t[1], tuple) and t[1][0] == 'downcast' and t[1][2] == 'Some'
                and isinstance(t[1][1], tuple) and t[1][1][0] == 'call' and t[1][1][1].split('::')[-1] == 'next' and t[1][1][3] == site)
    return {'src': src, 'elem': elem, 'is_elem': is_elem, 'rows': rows, 'cap': cap, 'next': nxt}


def closure_sym(ctx, cl, res=None):
    """enumerate a closure body with its captured values substituted (cl = ('closure', path, captures))"""
    b = ctx.body(cl[1])
    if res is not None:
        res.touch(b)
    s = Sym(b)
    s.run(env={1: cl})
    return b, s


def resolve_map_element(ctx, t, res=None):
    """`x` drawn from `ITER.map(F)` (x = next(..map(ITER, F)..).Some.0) rewritten as F(element of ITER), when F is a
    closure of this crate with a single straight path; otherwise t unchanged"""
    t0 = strip_transparent(t)
    if not (isinstance(t0, tuple) and t0[0] == 'field' and t0[2] == '0' and isinstance(t0[1], tuple) and t0[1][0] == 'downcast' and t0[1][2] == 'Some'):
        return t
    nx = strip_transparent(t0[1][1])
    if not (isinstance(nx, tuple) and nx[0] == 'call' and nx[1].split('::')[-1] == 'next'):
        return t
    it = strip_transparent(nx[2][0])
    while isinstance(it, tuple) and it and it[0] == 'call' and it[1].split('::')[-1] == 'into_iter':
        it = strip_transparent(it[2][0])
    if not (isinstance(it, tuple) and it[0] == 'call' and it[1].split('::')[-1] == 'map' and len(it[2]) == 2):
        return t
    inner, cl = it[2][0], it[2][1]
    if not (isinstance(cl, tuple) and cl[0] == 'closure' and ctx.f.body(cl[1]) is not None):
        return t
    b = ctx.body(cl[1])
    if res is not None:
        res.touch(b)
    inner_elem = ('field', ('downcast', ('call', nx[1], (('ref', inner, True),), nx[3]), 'Some'), '0')
    s = Sym(b)
    s.run(env={1: cl, 2: inner_elem})
    cps = s.complete_paths()
    if len(cps) != 1 or cps[0].conds:
        return t
    return cps[0].ret


def bool_split(paths):
    """for paths returning a non-constant bool, yield (path, extra_cond, outcome) rows for both outcomes"""
    out = []
    for p in paths:
        r = p.ret
        k = term_int(r)
        if k is not None:
            out.append((p, None, bool(k)))
        else:
            out.append((p, (r, 0, -1), False))
            out.append((p, (r, ('not', (0,)), -1), True))
    return out


def bool_table(paths, classify):
    """decision table of a bool-returning function; non-constant return values become conditions"""
    rows = []
    for p, extra, outcome in bool_split(paths):
        q = p.clone()
        q.end = p.end
        q.ret = p.ret
        if extra is not None:
            q.conds.append(extra)
        t = Table.build([q], classify, lambda _p, o=outcome: o)
        rows.extend(t.rows)
    return Table(rows)


def coroutine_param_env(body):
    """for the coroutine body of an async fn: locals initialised in bb0 from the captured parameters
    (`_k = move _1.<upvar>`) mapped to ('param', position, name); position 1 = first parameter"""
    env = {}
    if not body.blocks:
        return env
    for s in body.blocks[0]['stmts']:
        if s['k'] == 'assign' and not s['place']['p'] and s['rv']['k'] == 'use' and s['rv']['op']['k'] in ('move', 'copy'):
            pl = s['rv']['op']['place']
            if pl['l'] == 1 and len(pl['p']) == 1 and isinstance(pl['p'][0], dict) and 'f' in pl['p'][0]:
                env[s['place']['l']] = ('param', pl['p'][0]['f'] + 1, pl['p'][0]['n'])
    return env


def select_source(t):
    """for a value taken from the output of a tokio::select!: the future of the branch it came from.
    Shape: ((await(poll_fn(closure[.., &mut (fut0, fut1, ..)])) as _k).0 ..) -> fut_k (into_future stripped)"""
    import re as _re
    for x in term_walk(t):
        if isinstance(x, tuple) and x and x[0] == 'downcast' and isinstance(x[1], tuple) and x[1][0] == 'await':
            m = _re.match(r'^_(\d+)$', str(x[2]))
            if not m:
                continue
            k = m.group(1)
            for y in term_walk(x[1]):
                if isinstance(y, tuple) and y and y[0] == 'closure':
                    for cap in y[2]:
                        c = cap
                        while isinstance(c, tuple) and c[0] in ('ref', 'deref'):
                            c = c[1]
                        if isinstance(c, tuple) and c[0] == 'agg' and c[1] == 'tuple' and k in c[2]:
                            f = c[2][k]
                            while isinstance(f, tuple) and f[0] == 'call' and f[1].endswith('into_future'):
                                f = f[2][0]
                            return f
    return None
