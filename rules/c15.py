"""C15 - bootstrap completes when it can, tells every waiter, never kills the node (partial).

Decides: the bootstrap task has no exit while the handler lives (its only return is the Err edge of
start_rx.changed()); no unreviewed panic site exists in the library (shared table with C14); a
request whose transaction id is shared between loop iterations is sent only to destinations drawn
from a set iterator (so the (address, id) registration assert cannot fire); "bootstrapped" is not
published before a response was counted, except on the no-contacts path, which sends nothing;
waiters are answered at once when bootstrapped, parked otherwise, and the completion handler drains
every parked waiter; back-off is 2^min(n+1, 9) s. The ~11 minute bound and flapping are NOT decided."""
from . import lib, common, c14
from .lib import (Sym, Table, BOOL, Lost, literal, term_int, strip_transparent, is_field_of_param, option_is_some,
                  agg_variant, field_chain, root_of, is_param, find_calls, fmt, only_via_edge, must_pass)
from .c12 import cond_edges
from .c05 import pipeline
from .lookup import coverage_gap

EXPLANATION = __doc__
ASSUMPTIONS = ['a HashSet iterator yields each element once', 'tokio watch / oneshot channel semantics', 'the timing bound (~11 min) and behaviour under flapping are outside this check']

RUN = 'action::bootstrap::TableBootstrapInner::run'
B = 'action::bootstrap::TableBootstrapInner::'


def run_sym(ctx, res):
    b = ctx.co(RUN)
    res.touch(b)
    cache = ctx.__dict__.setdefault('_sym_cache', {})   # per analysed tree, never shared between trees
    k = ('c15', RUN)
    if k not in cache:
        s = Sym(b, max_paths=400000, merge_loop_exits=True)
        s.run()
        cache[k] = s
        res.paths += len(s.paths)
    return b, cache[k]


def rule_task_alive(ctx, res):
    b, s = run_sym(ctx, res)
    rets = s.complete_paths()
    ok = len(rets) >= 1
    for p in rets:
        lits = [literal(c) for c in p.conds]
        # the last thing learnt about `start_rx.changed().await` on this path is "it failed" (match / is_err() / is_ok())
        last = []
        for l in lits:
            if l[0] == 'variant' and l[1][0] == 'await' and find_calls(l[1], 'Receiver::<T>::changed'):
                last.append((l, l[2] == 1))
            elif l[0] == 'bool' and isinstance(l[1], tuple) and l[1][0] == 'call' and l[1][1].split('::')[-1] in ('is_err', 'is_ok') and l[3] is not None \
                    and isinstance(strip_transparent(l[1][2][0]), tuple) and strip_transparent(l[1][2][0])[0] == 'await' and find_calls(l[1], 'Receiver::<T>::changed'):
                last.append((l, (l[1][1].split('::')[-1] == 'is_err') == bool(l[3])))
        if not last or not last[-1][1] or not any(is_field_of_param(x[2][0], 'self', 'start_rx') for x in find_calls(last[-1][0][1], 'Receiver::<T>::changed')):
            ok = False
    rb = [i for i, blk in enumerate(b.blocks) if not blk['cleanup'] and blk['term']['k'] == 'return' and i in b.reachable(0)]
    res.check(ok, 'TABLE', b.path, 'the bootstrap task returns only on the Err edge of start_rx.changed() (start_tx dropped = handler gone)', detail='%d return paths' % len(rets))
    # the task handle is only aborted by Drop of TableBootstrap, which the handler owns for its whole life
    ab = ctx.calls_matching(r'JoinHandle::<T>::abort$')
    res.check({x.body.path for x in ab} <= {'<action::bootstrap::TableBootstrap as std::ops::Drop>::drop'}, 'WHO', 'JoinHandle::abort', 'the task is aborted only when TableBootstrap is dropped', detail=str(ab))
    ws = ctx.field_writes(r'^handler::DhtHandler$', 'bootstrap')
    res.check(not ws, 'WHO', 'handler::DhtHandler.bootstrap', 'the handler never replaces (drops) its TableBootstrap', detail=str([x[0].path for x in ws]))
    # both channel ends the asserts talk about are owned by the task
    nb = ctx.body('action::bootstrap::TableBootstrap::new')
    res.touch(nb)
    ns = Sym(nb)
    ns.run()
    okn = False
    for p in ns.paths:
        for e in p.effects:
            if e[0] == 'call' and e[1] == RUN:
                inner = e[2][0]
                okn = inner[0] == 'agg' and 'unbounded' not in fmt(inner) and find_calls(inner[2].get('start_rx'), 'watch::channel') and find_calls(inner[2].get('state_tx'), 'watch::channel')
    res.check(bool(okn), 'FLOW', nb.path, 'the task owns start_rx and state_tx (the counterparts of the two liveness asserts)')


def rule_dedup(ctx, res):
    """every send_request whose transaction id is shared between iterations goes to destinations of a set iterator"""
    sites = ctx.calls_to('socket::Socket::send_request')
    res.sites += len(sites)
    res.check(len(sites) >= 1, 'WHO', 'socket::Socket::send_request', 'send_request call sites (non-vacuity)', detail=str(len(sites)))
    for body in {x.body.path: x.body for x in sites}.values():
        res.touch(body)
        s = Sym(body)
        s.run(env=lib.coroutine_param_env(body) if body.kind == 'coroutine' else None)
        n = 0
        ok = True
        why = ''
        for p in s.paths:
            for e in p.effects:
                if e[0] != 'call' or e[1] != 'socket::Socket::send_request':
                    continue
                n += 1
                msg = strip_transparent(e[2][1])
                dest = strip_transparent(e[2][2])
                fresh = bool(find_calls(msg, 'MIDGenerator::generate')) and bool(find_calls(dest, '::next')) and \
                    any(x[0] == 'call' and x[1] == 'transaction::MIDGenerator::generate' and x[3] in p.blocks[p.blocks.index(find_calls(dest, '::next')[0][3]):] for x in p.effects if x[0] == 'call')
                if fresh:
                    continue  # a fresh id per iteration: (address, id) pairs are distinct whatever the addresses are
                # shared id: the destination must be the element of a set iterator, with no chain/zip of several sources
                nx = find_calls(dest, '::next')
                if not nx:
                    ok = False
                    why = 'shared id sent to something that is not a loop element'
                    continue
                it = nx[0][2][0]
                while isinstance(it, tuple) and it[0] in ('ref', 'deref'):
                    it = it[1]
                calls = [nx[0][1]] + [x[1] for x in lib.term_walk(it) if isinstance(x, tuple) and x and x[0] == 'call']
                set_iter = [c for c in calls if c.startswith('std::collections::HashSet::<') or c.startswith('std::collections::BTreeSet::<') or 'hash_set::' in c or 'btree_set::' in c]
                multi = [c for c in calls if c.split('::')[-1] in ('chain', 'zip', 'flatten', 'flat_map', 'cycle', 'repeat', 'interleave', 'map', 'scan')]
                if not set_iter or multi:
                    ok = False
                    why = 'shared id sent along %s' % [lib.short(c) for c in calls]
        res.check(ok and n >= 1, 'TYPE', body.path, 'requests sharing one transaction id across iterations are sent only to the elements of one set iterator (no address twice)', detail=why, key='dedup')
    # the set handed to the shared-id round is a HashSet built as the union of routers and nodes
    b, s = run_sym(ctx, res)
    okc = False
    for p in s.paths:
        for e in p.effects:
            if e[0] == 'call' and e[1] == B + 'send_to_initial_nodes':
                c = e[2][2]
                while isinstance(c, tuple) and c[0] in ('ref', 'deref'):
                    c = c[1]
                okc = bool(find_calls(c, '::union')) and any('HashSet' in x[1] for x in find_calls(c, '::union')) and c[0] == 'call' and c[1].endswith('::collect')
    tys = {l['ty'] for l in ctx.co(B + 'send_to_initial_nodes').locals if 'HashSet' in l['ty']}
    res.check(okc and any(t.startswith('&std::collections::HashSet<std::net::SocketAddr>') or t.startswith("&'") and 'HashSet<std::net::SocketAddr>' in t for t in tys) , 'FLOW', b.path,
              'the first round receives the set union of router addresses and starting nodes', detail=str(sorted(tys))[:200])


def rule_not_before_answer(ctx, res):
    b, s = run_sym(ctx, res)
    states = common.enum_variants(ctx, 'action::bootstrap::State')
    pubs = {}
    for p in s.paths:
        for e in p.effects:
            if e[0] == 'call' and e[1] == B + 'set_state' and agg_variant(e[2][1]) == 'Bootstrapped':
                pubs.setdefault(e[3], []).append(p)
    res.check(len(pubs) == 2, 'WHO', b.path, 'Bootstrapped is published at two sites (no contacts at all / after a completed attempt)', detail=str(sorted(pubs)))
    # the response counter is found by its role, not by its name: a loop-carried local compared with 0
    def zero_cmp(l):
        """local id of the loop-carried variable in a literal `var == 0`, else None"""
        if l[0] != 'eq':
            return None
        for x, y in ((l[1], l[2]), (l[2], l[1])):
            if isinstance(x, tuple) and x and x[0] == 'loopvar' and term_int(y) == 0:
                return x[1]
        return None
    uniq = {}
    for p in s.paths:
        for c in p.conds:
            uniq.setdefault(id(c), c)
    cands = sorted({zero_cmp(literal(c)) for c in uniq.values()} - {None})
    counter = None
    for cand in cands:
        e = cond_edges(b, s.paths, lambda l, cand=cand: zero_cmp(l) == cand and l[3] is False)
        if any(only_via_edge(b, blk, e) for blk in pubs):
            counter = cand
            break
    e_resp = cond_edges(b, s.paths, lambda l: counter is not None and zero_cmp(l) == counter and l[3] is False)
    e_none = cond_edges(b, s.paths, lambda l: l[0] == 'bool' and l[3] is True and l[1][0] == 'call' and l[1][1].endswith('::is_empty') and is_field_of_param(l[1][2][0], 'self', 'starting_nodes'))
    e_norouter = cond_edges(b, s.paths, lambda l: l[0] == 'bool' and l[3] is True and l[1][0] == 'call' and l[1][1].endswith('::is_empty') and is_field_of_param(l[1][2][0], 'self', 'routers'))
    n_ok = 0
    for blk, paths in pubs.items():
        if only_via_edge(b, blk, e_resp):
            n_ok += 1
            res.ok('DOM', b.path, 'Bootstrapped (after an attempt) is published only through <response counter> != 0', site=b.term(blk)['sp'])
        elif only_via_edge(b, blk, e_none) and only_via_edge(b, blk, e_norouter):
            # the no-contacts path: nothing was sent before, and the task then parks forever
            sent = False
            for p in paths:
                idx = [i for i, e in enumerate(p.effects) if e[0] == 'call' and e[1] == B + 'set_state' and e[3] == blk][0]
                if any(e[0] == 'call' and e[1] and (e[1].endswith('send_request') or e[1] == 'socket::Socket::send' or e[1].endswith('send_to_initial_nodes') or e[1].endswith('send_bucket_bootstrap_requests')) for e in p.effects[:idx]):
                    sent = True
                after = [e for e in p.effects[idx:] if e[0] == 'call' and e[1] == 'std::future::pending']
                if not after:
                    sent = True
            res.check(not sent, 'COUNT', b.path, 'no contacts configured: Bootstrapped is published, nothing is sent, the task waits forever', site=b.term(blk)['sp'], key='no-contacts')
            n_ok += 1
        else:
            res.bad('DOM', b.path, 'Bootstrapped can be published without any response having been counted', site=b.term(blk)['sp'], key='bootstrapped-unguarded')
    # the counter counts responses only
    incs = set()
    for p in s.paths:
        for e in p.effects:
            if e[0] == 'assert' and e[1] == 'overflow:Add':
                t = e[2][1] if e[2][0] == 'overflow' else None
                if t and t[2][0] == 'loopvar' and counter is not None and t[2][1] == counter:
                    # the handle_message result tested last BEFORE this increment on the path
                    pos = {bb: i for i, bb in enumerate(p.blocks)}
                    at = pos.get(e[3], len(p.blocks))
                    hm = [literal(c) for c in p.conds if literal(c)[0] == 'bool' and literal(c)[1][0] == 'call' and literal(c)[1][1] == B + 'handle_message'
                          and pos.get(c[2], -1) <= at]
                    incs.add(bool(hm) and hm[-1][3] is True)
    res.check(incs == {True}, 'DOM', b.path, 'the response counter is incremented only when handle_message returned true', detail=str(incs))
    hb = ctx.body(B + 'handle_message')
    res.touch(hb)
    hs = Sym(hb)
    hs.run()
    mb = common.enum_variants(ctx, 'message::MessageBody')

    def classify(lit, c):
        rel, a, b2, truth = lit
        if rel == 'variant' and is_param(root_of(a), 'message') and field_chain(a) == ['body']:
            if isinstance(b2, tuple) and b2[0] == 'not':
                return ('kind', {k for k in mb if mb[k] not in b2[1]})
            return ('kind', {k for k in mb if mb[k] == b2})
        return None

    tab = lib.bool_table(hs.complete_paths(), classify)
    bad, n = tab.compare({'kind': list(mb)}, lambda v: v['kind'] == 'Response')
    res.check(not bad, 'TABLE', hb.path, 'handle_message is true exactly for responses (errors and queries do not count)', detail=str(bad[:2]))
    # set_state publishes through the watch channel
    sb = ctx.body(B + 'set_state')
    res.touch(sb)
    ss = Sym(sb)
    ss.run()
    okp = False
    for p in ss.complete_paths():
        for e in p.effects:
            if e[0] == 'call' and e[1].endswith('watch::Sender::<T>::send') and is_field_of_param(e[2][0], 'self', 'state_tx') and is_param(strip_transparent(e[2][1]), 'new_state'):
                okp = True
    res.check(okp, 'FLOW', sb.path, 'set_state publishes the new state on the watch channel the handler observes')
    ib = ctx.body('handler::DhtHandler::is_bootstrapped')
    res.touch(ib)
    isym = Sym(ib)
    isym.run()
    oki = False
    for p in isym.complete_paths():
        r = p.ret
        if r[0] == 'call' and lib.cmp_kind_of_call(r[1]) == 'eq' and any(agg_variant(strip_transparent(x)) == 'Bootstrapped' for x in r[2]) and find_calls(r, 'Receiver::<T>::borrow'):
            oki = True
    res.check(oki, 'TABLE', ib.path, 'is_bootstrapped <=> the published state is Bootstrapped')


def rule_waiters(ctx, res):
    b = ctx.body('handler::DhtHandler::handle_check_bootstrap')
    res.touch(b)
    s = Sym(b)
    s.run()
    ok = bool(s.complete_paths())
    for p in s.complete_paths():
        boot = [literal(c)[3] for c in p.conds if literal(c)[0] == 'bool' and literal(c)[1][0] == 'call' and literal(c)[1][1] == 'handler::DhtHandler::is_bootstrapped']
        sends = [e for e in p.effects if e[0] == 'call' and e[1].endswith('oneshot::Sender::<T>::send') and is_param(strip_transparent(e[2][0]), 'tx')]
        parks = [e for e in p.effects if e[0] == 'call' and e[1].endswith('::insert') and is_field_of_param(e[2][0], 'self', 'bootstrap_txs') and is_param(strip_transparent(e[2][2]), 'tx')]
        if not boot:
            ok = False
        elif boot[-1] and (len(sends) != 1 or parks):
            ok = False
        elif not boot[-1] and (len(parks) != 1 or sends):
            ok = False
        for e in parks:
            # fresh key: the counter value before its increment
            if not is_field_of_param(e[2][1], 'self', 'next_bootstrap_txs_id'):
                ok = False
            if not any(w[0] == 'write' and is_field_of_param(w[1], 'self', 'next_bootstrap_txs_id') and w[2][0] == 'bin' and w[2][1] == 'Add' and term_int(w[2][3]) == 1 for w in p.effects):
                ok = False
    res.check(ok, 'TABLE', b.path, 'a waiter is answered at once when bootstrapped, otherwise parked under a fresh key', site=b.span)
    hb = ctx.co('handler::DhtHandler::handle_bootstrap_success')
    res.touch(hb)
    hs = Sym(hb)
    hs.run()
    drains = set()
    okl = False
    for p in hs.paths:
        for e in p.effects:
            if e[0] == 'call' and e[1].endswith('::drain') and is_field_of_param(e[2][0], 'self', 'bootstrap_txs'):
                drains.add(e[3])
        if p.end == 'loop':
            sn = [e for e in p.effects if e[0] == 'call' and e[1].endswith('oneshot::Sender::<T>::send')]
            if sn and find_calls(sn[0][2][0], '::drain') and find_calls(sn[0][2][0], '::next'):
                it = find_calls(sn[0][2][0], '::next')[0][2][0]
                while isinstance(it, tuple) and it[0] in ('ref', 'deref'):
                    it = it[1]
                names = [x[0] for x in pipeline(it)]
                # the whole drained map, no adaptor that could drop a waiter
                okl = all(n in ('src', 'into_iter', 'iter') for n in names) and pipeline(it)[0][1][0] == 'call' and pipeline(it)[0][1][1].endswith('::drain')
    okskip = True
    for p in hs.paths:
        if p.end == 'await-pending':
            continue
        got = any(literal(c)[0] == 'variant' and literal(c)[1][0] == 'call' and literal(c)[1][1].endswith('::next') and find_calls(literal(c)[1], '::drain') and option_is_some(literal(c)[2]) is True for c in p.conds)
        if got and not any(e[0] == 'call' and e[1].endswith('oneshot::Sender::<T>::send') for e in p.effects):
            okskip = False
    res.check(len(drains) == 1 and must_pass(hb, 0, drains) and okl and okskip, 'MPT', hb.path, 'the completion handler drains the whole waiter map and notifies every drained waiter')
    rb = ctx.co('handler::DhtHandler::run_once')
    res.touch(rb)
    rs = Sym(rb)
    rs.run()
    okr = False
    bad = False
    for p in rs.paths:
        if p.end == 'await-pending':
            continue
        calls = [e for e in p.effects if e[0] == 'call' and e[1] == 'handler::DhtHandler::handle_bootstrap_success']
        isb = [literal(c)[3] for c in p.conds if literal(c)[0] == 'bool' and literal(c)[1][0] == 'call' and literal(c)[1][1] == 'handler::DhtHandler::is_bootstrapped']
        if calls:
            okr = True
            if not (isb and isb[-1] is True):
                bad = True
        elif isb and isb[-1] is True:
            bad = True
    res.check(okr and not bad, 'TABLE', rb.path, 'on every bootstrap state change: is_bootstrapped() <=> the completion handler runs')
    # bootstrapped() API: true iff the waiter was notified
    ab = ctx.co('mainline_dht::MainlineDht::bootstrapped')
    res.touch(ab)


def rule_backoff(ctx, res):
    b = ctx.body(B + 'calculate_retry_duration')
    res.touch(b)
    s = Sym(b)
    s.run()
    def upper(t):
        """an upper bound of an unsigned integer term, or None (unknown)"""
        t = strip_transparent(t)
        v = term_int(t)
        if v is not None:
            return v
        if not isinstance(t, tuple) or not t:
            return None
        if t[0] == 'cast':
            return upper(t[1])
        if t[0] == 'call' and t[1].split('::')[-1] == 'min' and len(t[2]) == 2:
            us = [u for u in (upper(t[2][0]), upper(t[2][1])) if u is not None]
            return min(us) if us else None
        if t[0] == 'bin' and t[1].replace('WithOverflow', '') in ('Add', 'Mul'):
            a, b2 = upper(t[2]), upper(t[3])
            if a is None or b2 is None:
                return None
            return a + b2 if t[1].startswith('Add') else a * b2
        if t[0] == 'field' and t[2] == '0':          # (value, overflow flag) of a checked operation
            return upper(t[1])
        return None
    ok = False
    bound = None
    for p in s.complete_paths():
        r = p.ret
        ok = False
        if r[0] == 'call' and r[1].endswith('Duration::from_secs'):
            pw = strip_transparent(r[2][0])
            if pw[0] == 'call' and pw[1].endswith('::pow') and term_int(pw[2][0]) == 2:
                bound = upper(pw[2][1])
                ok = bound is not None and bound <= 9
        if not ok:
            break
    res.check(ok, 'CONST', b.path, 'back-off = 2^e seconds with e <= 9 on every path, i.e. at most 512 s (the "about 11 minutes" of the property: 512 s + 2.5 s + bucket rounds)', detail='upper bound of the exponent: %s' % bound, key='backoff-cap')
    for name, want in (('NO_NETWORK_TIMEOUT', 5000), ('PERIODIC_CHECK_TIMEOUT', 5000), ('INITIAL_TIMEOUT', 2500), ('NODE_TIMEOUT', 500)):
        ms = ctx.f.duration_ms('action::bootstrap::' + name)
        res.check(ms == want, 'CONST', 'action::bootstrap::' + name, '%s == %d ms' % (name, want), detail=str(ms))


def run(ctx, res):
    rule_task_alive(ctx, res)
    c14.rule_panics(ctx, res)
    c14.rule_select_premises(ctx, res)
    rule_dedup(ctx, res)
    rule_not_before_answer(ctx, res)
    rule_waiters(ctx, res)
    rule_backoff(ctx, res)
