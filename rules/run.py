"""Infrastructure of the static checks: fact extraction, freshness, known findings, evidence, exit codes."""
import sys, os, json, time, subprocess, shutil, importlib, tempfile, traceback

HERE = os.path.dirname(os.path.dirname(os.path.abspath(__file__)))
BUILD = os.path.join(HERE, 'build')
FACTGEN_DIR = os.path.join(HERE, 'factgen')
FACTGEN_BIN = os.path.join(BUILD, 'factgen-target', 'debug', 'factgen')


def env_offline():
    e = dict(os.environ)
    e['CARGO_NET_OFFLINE'] = 'true'
    return e


def sysroot():
    return subprocess.check_output(['rustc', '+nightly', '--print', 'sysroot'], text=True).strip()


def build_factgen(force=False):
    srcs = [os.path.join(FACTGEN_DIR, 'src', f) for f in os.listdir(os.path.join(FACTGEN_DIR, 'src'))]
    if not force and os.path.exists(FACTGEN_BIN):
        if all(os.path.getmtime(s) <= os.path.getmtime(FACTGEN_BIN) for s in srcs):
            return
    e = env_offline()
    e['CARGO_TARGET_DIR'] = os.path.join(BUILD, 'factgen-target')
    r = subprocess.run(['cargo', 'build', '--offline'], cwd=FACTGEN_DIR, env=e, stdout=subprocess.PIPE, stderr=subprocess.STDOUT, text=True)
    if r.returncode != 0 or not os.path.exists(FACTGEN_BIN):
        sys.stderr.write(r.stdout)
        sys.stderr.write('check: cannot build factgen\n')
        sys.exit(2)


def fnv(data):
    h = 0xcbf29ce484222325
    for b in data:
        h ^= b
        h = (h * 0x100000001b3) & 0xFFFFFFFFFFFFFFFF
    return '%016x' % h


def gen_facts(repo, crate='btdht', out=None, target_dir=None):
    """run factgen over `repo` (a cargo package dir); returns path of the fact file"""
    build_factgen()
    os.makedirs(BUILD, exist_ok=True)
    if out is None:
        out = os.path.join(BUILD, 'facts-%d.json' % os.getpid())
    if os.path.exists(out):
        os.remove(out)
    target = target_dir or os.path.join(BUILD, 'target')
    import fcntl
    lock = open(os.path.join(BUILD, '.factgen.lock'), 'w')
    fcntl.flock(lock, fcntl.LOCK_EX)  # one extraction at a time: the fingerprint wipe below must not race
    try:
        return _gen_facts_locked(repo, crate, out, target)
    finally:
        fcntl.flock(lock, fcntl.LOCK_UN)
        lock.close()


def _gen_facts_locked(repo, crate, out, target):
    # cargo's freshness cache would skip the wrapper: forget the package's fingerprint
    fp = os.path.join(target, 'debug', '.fingerprint')
    if os.path.isdir(fp):
        for d in os.listdir(fp):
            if d.startswith(crate + '-'):
                shutil.rmtree(os.path.join(fp, d), ignore_errors=True)
    e = env_offline()
    e['LD_LIBRARY_PATH'] = os.path.join(sysroot(), 'lib') + (':' + e['LD_LIBRARY_PATH'] if e.get('LD_LIBRARY_PATH') else '')
    e['RUSTFLAGS'] = '-Zmir-opt-level=0 -Awarnings'
    e['RUSTC_WORKSPACE_WRAPPER'] = FACTGEN_BIN
    e['FACTGEN_OUT'] = out
    e['FACTGEN_CRATE'] = crate
    e['CARGO_TARGET_DIR'] = target
    e['CARGO_INCREMENTAL'] = '0'
    e['RUSTC_ICE'] = '0'   # never drop rustc-ice-*.txt files into the analysed tree
    t0 = time.time()
    r = subprocess.run(['cargo', '+nightly', 'check', '--offline', '--lib', '--quiet'], cwd=repo, env=e,
                       stdout=subprocess.PIPE, stderr=subprocess.STDOUT, text=True)
    if r.returncode != 0 or not os.path.exists(out):
        sys.stderr.write(r.stdout[-4000:])
        sys.stderr.write('\ncheck: fact extraction failed (the tree does not compile under cargo +nightly check?)\n')
        sys.exit(2)
    if os.path.getmtime(out) < t0 - 1:
        sys.stderr.write('check: stale fact file\n')
        sys.exit(2)
    return out


def verify_fresh(facts, repo):
    """the facts must describe exactly the files now on disk"""
    n = 0
    for f in facts.meta['files']:
        p = os.path.join(repo, f['path'])
        try:
            data = open(p, 'rb').read()
        except OSError:
            sys.stderr.write('check: source file vanished: %s\n' % p)
            sys.exit(2)
        if f['fnv'] and fnv(data) != f['fnv']:
            sys.stderr.write('check: facts do not match %s (edited during the run?)\n' % p)
            sys.exit(2)
        n += 1
    return n


def load_known():
    p = os.path.join(HERE, 'known_findings.json')
    try:
        return json.load(open(p))
    except OSError:
        return {'open': [], 'fixed': []}




WITNESS_PROPS = {'C08', 'C10', 'C12'}


def run_witnesses():
    """engine C: compile-fail doc-tests of the witness crate against /repo (nightly honours the error codes)"""
    w = os.path.join(HERE, 'witness')
    try:
        shutil.copy('/repo/Cargo.lock', os.path.join(w, 'Cargo.lock'))
    except OSError:
        pass
    e = env_offline()
    e['CARGO_TARGET_DIR'] = os.path.join(BUILD, 'witness-target')
    r = subprocess.run(['cargo', '+nightly', 'test', '--doc', '--offline'], cwd=w, env=e, stdout=subprocess.PIPE, stderr=subprocess.STDOUT, text=True)
    import re
    m = re.search(r'test result: (\w+)\. (\d+) passed; (\d+) failed', r.stdout)
    if not m:
        return {'witnesses_passed': 0, 'witnesses_failed': -1, 'witness_log': r.stdout[-1500:]}
    failed = [l for l in r.stdout.splitlines() if l.startswith('test ') and l.rstrip().endswith('FAILED')]
    return {'witnesses_passed': int(m.group(2)), 'witnesses_failed': int(m.group(3)), 'witness_failures': failed}


PROPS = ['C02', 'C03', 'C04', 'C05', 'C06', 'C07', 'C08', 'C09', 'C10', 'C11', 'C12', 'C13', 'C14', 'C15', 'C16',
         'C17', 'C18', 'C19', 'C20']


def analyse(prop, repo, facts_path=None, keep_facts=False):
    """extract facts from `repo` and run the rules of `prop`; returns (Results, facts, n_files)"""
    from . import lib
    from .facts import Facts
    own = facts_path is None
    if own:
        facts_path = gen_facts(repo)
    try:
        facts = Facts(facts_path)
    finally:
        if own and not keep_facts:
            try:
                os.remove(facts_path)
            except OSError:
                pass
    nfiles = verify_fresh(facts, repo) if own else len(facts.meta['files'])
    ctx = lib.Ctx(facts)
    res = lib.Results(prop)
    mod = importlib.import_module('rules.%s' % prop.lower())
    try:
        mod.run(ctx, res)
    except lib.Lost as e:
        res.bad('ANCHOR', 'rules.%s' % prop.lower(), 'anchor lost: %s' % e, detail='the code the rule is anchored on cannot be found; the obligation cannot be established', key='anchor-lost:%s' % e)
    except (AttributeError, TypeError, KeyError, IndexError, ValueError) as e:
        # a rule met a term shape it was not written for: the obligation is not established (fail closed), not a crash
        import traceback
        tb = traceback.extract_tb(e.__traceback__)
        where = '%s:%d' % (os.path.basename(tb[-1].filename), tb[-1].lineno) if tb else '?'
        res.bad('ANCHOR', 'rules.%s' % prop.lower(), 'a rule could not interpret the code it is anchored on', detail='%s at %s' % (type(e).__name__, where), key='uninterpretable:%s' % where)
    return res, facts, nfiles, mod


def run_property(prop, repo, tier, seed, facts_path=None, explain=False, write_evidence=True, selftest=True, t0=None):
    t0 = t0 or time.time()
    if prop not in PROPS:
        sys.stderr.write('check: no static check is registered for %s\n' % prop)
        return 2
    res, facts, nfiles, mod = analyse(prop, repo, facts_path)
    known = load_known()
    open_keys = {k['key']: k for k in known.get('open', []) if k.get('property') == prop}
    viol = res.violations()
    fresh = []
    seen_known = []
    seen = set()
    for v in viol:
        if v['key'] in seen:
            continue
        seen.add(v['key'])
        if v['key'] in open_keys:
            seen_known.append(v)
        else:
            fresh.append(v)
    for v in seen_known:
        print('KNOWN-FINDING: property=%s %s -- %s' % (prop, v['key'], open_keys[v['key']].get('what', v['what'])))
    extra = {}
    if tier == 'thorough' and selftest:
        from . import selftest as st
        extra = st.run_for(prop, repo)
        for f in extra.get('failures', []):
            fresh.append({'property': prop, 'rule': 'SELFTEST', 'anchor': f['patch'], 'what': f['what'], 'site': None,
                          'verdict': 'violation', 'detail': f.get('detail'), 'key': '%s|SELFTEST|%s' % (prop, f['patch'])})
    if tier == 'thorough' and selftest and prop in WITNESS_PROPS and repo == '/repo':
        w = run_witnesses()
        extra.update({k: v for k, v in w.items() if k != 'witness_log'})
        if w.get('witnesses_failed', 0) != 0 or w.get('witnesses_passed', 0) < 13:
            fresh.append({'property': prop, 'rule': 'WITNESS', 'anchor': 'witness/src/lib.rs', 'what': 'a compile-fail witness of the closed-world assumption no longer holds (or the witness crate does not build)',
                          'site': None, 'verdict': 'violation', 'detail': str(w.get('witness_failures') or w.get('witness_log')), 'key': '%s|WITNESS|closed-world' % prop})
    vdir = os.path.join(HERE, 'evidence', 'violations')
    if fresh:
        os.makedirs(vdir, exist_ok=True)
    for i, v in enumerate(fresh):
        p = os.path.join(vdir, '%s-%d.json' % (prop, i))
        with open(p, 'w') as fh:
            json.dump(v, fh, indent=1, default=str)
        print('VIOLATION property=%s replay=%s' % (prop, p))
        print('  rule=%s anchor=%s site=%s\n  %s\n  %s' % (v['rule'], v['anchor'], v.get('site'), v['what'], v.get('detail') or ''))
    if explain:
        for r in res.records:
            print('%-9s %-14s %-50s %s  [%s]' % (r['verdict'], r['rule'], r['anchor'][-50:], r['what'], r.get('site')))
    wall = time.time() - t0
    if write_evidence:
        write_ev(prop, tier, seed, res, facts, nfiles, mod, fresh, seen_known, extra, wall)
    oks = sum(1 for r in res.records if r['verdict'] == 'ok')
    print('%s: %d obligations, %d discharged, %d known finding(s), %d violation(s); %d functions, %.1fs'
          % (prop, len(res.records), oks, len(seen_known), len(fresh), len(res.functions), wall))
    return 1 if fresh else 0


def write_ev(prop, tier, seed, res, facts, nfiles, mod, fresh, seen_known, extra, wall):
    os.makedirs(os.path.join(HERE, 'evidence'), exist_ok=True)
    recs = res.records
    oks = [r for r in recs if r['verdict'] == 'ok']
    rules = sorted({r['rule'] for r in recs})
    samples = []
    seen_rules = set()
    for r in recs:
        if r['rule'] in seen_rules and len(samples) >= 12:
            continue
        seen_rules.add(r['rule'])
        samples.append({k: r[k] for k in ('rule', 'anchor', 'what', 'site', 'verdict')})
        if len(samples) >= 40:
            break
    cov = {
        'explanation': getattr(mod, 'EXPLANATION', mod.__doc__ or prop),
        'obligations': len(recs),
        'discharged': len(oks),
        'evaluations': len(recs),
        'distinct_nontrivial': len({r['key'] for r in recs}),
        'rule': 'one evaluation = one rule instance (rule kind x anchor x site/table row) decided on the MIR of the current tree; '
                'distinct = distinct (rule, anchor, instance) keys',
        'rules_applied': rules,
        'functions_analysed': sorted(res.functions),
        'n_functions_analysed': len(res.functions),
        'bodies_in_crate': len(facts.body_list),
        'source_files_verified': nfiles,
        'paths_enumerated': res.paths,
        'samples': samples,
        'checker_cmd': './check %s --tier %s' % (prop, tier),
        'trusted_base': ['rustc front end / MIR construction', 'factgen extractor', 'std container semantics', 'hand lemmas in DESIGN.md section 4'],
        'known_findings_seen': [v['key'] for v in seen_known],
        # what the normaliser did to the facts before the rules ran (renames mapped back, new helpers inlined,
        # combinators rewritten as matches); the rules decide the normalised program, which is behaviour-equivalent
        'normalisation': {'renames_and_inlined_helpers': [n for n in getattr(facts, 'renames', []) if not n.startswith('expanded') and not n.startswith('NOT expanded')][:40],
                          'combinators_expanded': len([n for n in getattr(facts, 'renames', []) if n.startswith('expanded')]),
                          'combinators_left_opaque': [n for n in getattr(facts, 'renames', []) if n.startswith('NOT expanded')][:20]},
    }
    cov.update({k: v for k, v in extra.items() if k != 'failures'})
    ev = {
        'property_id': prop,
        'tier': tier,
        'seed': seed,
        'level': 'other',
        'coverage': cov,
        'assumptions': getattr(mod, 'ASSUMPTIONS', []),
        'wall_s': round(wall, 2),
        'violations': len(fresh),
    }
    with open(os.path.join(HERE, 'evidence', '%s.json' % prop), 'w') as fh:
        json.dump(ev, fh, indent=1, default=str)
