"""Panic-capable sites of the crate, each with a descriptor built from the producer of its operand
(so that the reviewed table is keyed by meaning, not by line)."""
import re
from .facts import callee, callee_path
from . import lib
from . import ranges

PANIC_CALL_RX = re.compile(
    r'(::unwrap$|::expect$|::unwrap_err$|::expect_err$|::unwrap_unchecked$'
    r'|ops::Index(Mut)?::index(_mut)?$|Index<I>>::index$|IndexMut<I>>::index_mut$'
    r'|::copy_from_slice$|::clone_from_slice$|::split_at(_mut)?$|::chunks(_exact)?(_mut)?$|::windows$|::step_by$'
    r'|Vec::<T, A>::(remove|insert|swap_remove|split_off|drain|truncate_front)$|VecDeque::<T, A>::(remove|insert)$'
    r'|::pow$|::abs$|::div_euclid$|::rem_euclid$|::next_power_of_two$'
    r'|RefCell::<T>::(borrow|borrow_mut)$|Cell::<T>::replace$'
    r'|Instant as std::ops::(Add|Sub)<std::time::Duration>>::(add|sub)$|Duration as std::ops::(Add|Sub|Mul<u32>|Div<u32>)>::(add|sub|mul|div)$'
    r'|time::Instant::(duration_since)$|Duration::(from_secs_f64|from_secs_f32|mul_f64|div_f64)$'
    r'|tokio::task::spawn$|tokio::spawn$|tokio::time::sleep$|tokio::time::sleep_until$|tokio::time::interval$'
    r'|::from_utf8_unchecked$|::get_unchecked(_mut)?$|::unreachable_unchecked$'
    r'|Ord::clamp$|::max_by_key$)')

DIVERGE_RX = re.compile(r'(panicking::|panic_fmt|begin_panic|::panic$|unreachable|assert_failed|process::abort$|intrinsics::abort$|process::exit$|handle_alloc_error|capacity_overflow)')

INT_RANGE = {'u8': (0, 2**8 - 1), 'u16': (0, 2**16 - 1), 'u32': (0, 2**32 - 1), 'u64': (0, 2**64 - 1), 'u128': (0, 2**128 - 1), 'usize': (0, 2**64 - 1),
             'i8': (-2**7, 2**7 - 1), 'i16': (-2**15, 2**15 - 1), 'i32': (-2**31, 2**31 - 1), 'i64': (-2**63, 2**63 - 1), 'isize': (-2**63, 2**63 - 1)}
BITS = {'u8': 8, 'u16': 16, 'u32': 32, 'u64': 64, 'u128': 128, 'usize': 64, 'i8': 8, 'i16': 16, 'i32': 32, 'i64': 64, 'isize': 64}


def const_int(body, op, depth=0):
    """(value, type) if the operand is a compile-time integer (literal, named const, or arithmetic over those)"""
    if depth > 6:
        return None
    if op['k'] == 'const':
        if 'int' in op:
            return (op['int'], op.get('ty'))
        return None
    if op['k'] not in ('copy', 'move'):
        return None
    pl = op['place']
    fields = [e for e in pl['p']]
    ds = defs_of(body, pl['l'])
    if len(ds) != 1 or ds[0][0] != 'assign':
        return None
    rv = ds[0][1]
    if rv['k'] == 'use' and not fields:
        return const_int(body, rv['op'], depth + 1)
    if rv['k'] == 'cast' and not fields:
        v = const_int(body, rv['op'], depth + 1)
        return None if v is None else (v[0], rv['ty'])
    if rv['k'] == 'bin':
        a, b = const_int(body, rv['a'], depth + 1), const_int(body, rv['b'], depth + 1)
        if a is None or b is None:
            return None
        op2 = rv['op'].replace('WithOverflow', '')
        try:
            v = {'Add': a[0] + b[0], 'Sub': a[0] - b[0], 'Mul': a[0] * b[0], 'Shl': a[0] << b[0], 'Shr': a[0] >> b[0],
                 'Div': (a[0] // b[0]) if b[0] else None, 'Rem': (a[0] % b[0]) if b[0] else None, 'BitOr': a[0] | b[0], 'BitAnd': a[0] & b[0]}.get(op2)
        except Exception:
            v = None
        if v is None:
            return None
        if rv['op'].endswith('WithOverflow'):
            # tuple (value, overflowed): only `.0` is an int
            if len(fields) == 1 and isinstance(fields[0], dict) and fields[0].get('n') == '0':
                return (v, a[1])
            return None
        if fields:
            return None
        return (v, a[1])
    return None


def assert_is_const_safe(body, t):
    """an Assert terminator whose operands are compile-time integers and which provably holds"""
    kind = t['assert']
    if kind == 'bounds':
        i, n = const_int(body, t['index']), const_int(body, t['len'])
        return i is not None and n is not None and 0 <= i[0] < n[0]
    c = t['cond']
    if c['k'] not in ('copy', 'move'):
        return False
    ds = defs_of(body, c['place']['l'])
    if len(ds) != 1 or ds[0][0] != 'assign':
        return False
    rv = ds[0][1]
    if rv['k'] != 'bin':
        return False
    a, b = const_int(body, rv['a']), const_int(body, rv['b'])
    if a is None or b is None:
        return False
    op = rv['op'].replace('WithOverflow', '')
    ty = a[1] if a[1] in INT_RANGE else 'usize'
    lo, hi = INT_RANGE[ty]
    if kind in ('div_zero', 'rem_zero'):
        # cond is `b == 0` expected false
        return a[0] != 0 if rv['op'] == 'Eq' else False
    if kind.startswith('overflow:Sh'):
        # cond is `shift < bits`
        if rv['op'] == 'Lt':
            return a[0] < b[0]
        return False
    if rv['op'].endswith('WithOverflow'):
        try:
            v = {'Add': a[0] + b[0], 'Sub': a[0] - b[0], 'Mul': a[0] * b[0]}[op]
        except KeyError:
            return False
        return lo <= v <= hi
    return False



def short(p):
    if p is None:
        return '?'
    p = re.sub(r'<([^<>]|<[^<>]*>)*>::', '', p) if p.startswith('<') and ' as ' not in p else p
    parts = [x for x in re.split(r'::', p) if x]
    return '::'.join(parts[-2:]) if len(parts) > 1 else p


def defs_of(body, l):
    """all definitions of bare local l: ('assign', rv, block) / ('call', term, block)"""
    cache = body.__dict__.setdefault('_defs', None)
    if cache is None:
        cache = {}
        for i, blk in enumerate(body.blocks):
            for st in blk['stmts']:
                if st['k'] == 'assign' and not st['place']['p']:
                    cache.setdefault(st['place']['l'], []).append(('assign', st['rv'], i))
            t = blk['term']
            if t['k'] == 'call' and not t['dest']['p']:
                cache.setdefault(t['dest']['l'], []).append(('call', t, i))
        body._defs = cache
    return cache.get(l, [])


def producer(body, op, depth=0):
    """short description of what produces an operand"""
    if depth > 4:
        return '…'
    if op['k'] == 'const':
        if 'fn' in op:
            return 'fn ' + short(op['fn'].get('resolved') or op['fn']['path'])
        if 'def' in op:
            return short(op['def'])
        if 'int' in op:
            return str(op['int'])
        return 'const'
    if op['k'] not in ('copy', 'move'):
        return '?'
    return place_producer(body, op['place'], depth)


def place_producer(body, pl, depth):
    l = pl['l']
    proj = ''.join('.%s' % e['n'] for e in pl['p'] if isinstance(e, dict) and 'f' in e)
    idx = any(isinstance(e, dict) and ('idx' in e or 'cidx' in e) for e in pl['p'])
    name = body.local_name(l)
    if 1 <= l <= body.arg_count:
        if body.kind == 'coroutine' and l == 1:
            return 'param' + proj
        return (name or 'arg%d' % l) + proj
    ds = defs_of(body, l)
    if 2 <= len(ds) <= 4 and depth <= 4 and not body.local_is_user_mut(l):
        # a value chosen among a few alternatives (`if c { a } else { b }`, the arms of a match, an inlined helper's returns)
        alts = sorted({_one_def(body, d, proj, depth) for d in ds})
        return alts[0] if len(alts) == 1 else 'phi(%s)' % '|'.join(alts)
    if len(ds) != 1:
        return (name or '_%d' % l) + proj + ('[]' if idx else '')
    return _one_def(body, ds[0], proj, depth)


def _one_def(body, d, proj, depth):
    k, x, blk = d
    if k == 'call':
        c = callee(x)
        n = short(c.get('resolved') or c['path']) if c else 'indirect'
        a0 = producer(body, x['args'][0], depth + 1) if x['args'] else ''
        return '%s(%s)%s' % (n, a0, proj)
    rv = x
    if rv['k'] == 'use':
        return producer(body, rv['op'], depth + 1) + proj
    if rv['k'] in ('ref', 'copy_for_deref', 'rawptr'):
        return place_producer(body, rv['place'], depth + 1) + proj
    if rv['k'] == 'cast':
        return producer(body, rv['op'], depth + 1)
    if rv['k'] == 'bin':
        return '%s(%s, %s)' % (rv['op'], producer(body, rv['a'], depth + 1), producer(body, rv['b'], depth + 1))
    if rv['k'] == 'agg':
        if rv['agg'] == 'adt' and rv['adt'].startswith('std::ops::Range'):
            return '%s{%s}' % (rv['adt'].split('::')[-1], ', '.join(producer(body, o, depth + 1) for o in rv['ops']))
        return 'agg'
    if rv['k'] == 'discr':
        return 'discr'
    return rv['k']


def array_range_is_safe(body, t, full):
    """`array[a..b]` / `array[..b]` / `array[a..]` on a fixed-size array with compile-time bounds inside the array"""
    if not re.search(r'Index(Mut)?<I> for \[T; N\]>::index(_mut)?$|ops::Index(Mut)?::index(_mut)?$', full):
        return False
    if len(t['args']) != 2 or t['args'][0].get('k') not in ('copy', 'move'):
        return False
    ty = t['args'][0]['place']['ty']
    m = re.match(r"^&(?:'[a-z_0-9]+ )?(?:mut )?\[[^;\]]+; (\d+)\]$", ty)
    if not m:
        return False
    n = int(m.group(1))
    r = t['args'][1]
    if r.get('k') not in ('copy', 'move') or r['place']['p']:
        return False
    ds = defs_of(body, r['place']['l'])
    if len(ds) != 1 or ds[0][0] != 'assign' or ds[0][1]['k'] != 'agg' or ds[0][1].get('agg') != 'adt' or not ds[0][1]['adt'].startswith('std::ops::Range'):
        return False
    rv = ds[0][1]
    vals = {}
    for name, op in zip(rv['fields'], rv['ops']):
        c = const_int(body, op)
        if c is None:
            return False
        vals[name] = c[0]
    lo = vals.get('start', 0)
    hi = vals.get('end', n)
    if rv['adt'].endswith('RangeInclusive') or rv['adt'].endswith('RangeToInclusive'):
        return False
    return 0 <= lo <= hi <= n


def _same(a, b):
    """term equality that ignores which named constant an integer literal came from"""
    if isinstance(a, tuple) and isinstance(b, tuple):
        if a and b and a[0] == 'int' and b[0] == 'int':
            return a[1] == b[1]
        return len(a) == len(b) and all(_same(x, y) for x, y in zip(a, b))
    return a == b


def _slice_len_of(t):
    """X if t is `X.len()` of a slice / Vec, else None"""
    t = lib.strip_transparent(t)
    if isinstance(t, tuple) and t and t[0] == 'call' and t[1].split('::')[-1] == 'len' and len(t[2]) == 1 and ('slice' in t[1] or 'Vec' in t[1]):
        return lib.strip_transparent(t[2][0])
    return None


def _relational_safe(b, conds):
    """checked `len(X) - e` / `a + n` justified by what the path has established about X's length:
       * `X.get(p)` was Some, or `p < X.len()` held            =>  p + 1 <= len(X):  len(X) - p and len(X) - (p + 1) do not wrap
       * `len(X) - a < n` was false (n <= len(X) - a)            =>  a + n <= len(X):  a + n does not wrap"""
    st = lib.strip_transparent
    below = []       # (X, p) with p < len(X)
    fits = []        # (a, n) with a + n <= len(X) for some slice X
    for cc in conds:
        l = lib.literal(cc)
        if l[0] == 'variant' and isinstance(l[1], tuple) and l[1][0] == 'call' and l[1][1].startswith('core::slice::') and l[1][1].split('::')[-1] == 'get' \
                and len(l[1][2]) == 2 and lib.option_is_some(l[2]) is True:
            idx = st(l[1][2][1])
            if not (isinstance(idx, tuple) and idx and idx[0] == 'agg'):      # a plain index, not a range
                below.append((st(l[1][2][0]), idx))
        if l[0] == 'lt' and l[3] is True and isinstance(l[2], tuple) and _slice_len_of(l[2]) is not None:
            below.append((_slice_len_of(l[2]), st(l[1])))
        if l[0] == 'lt' and l[3] is False and isinstance(l[1], tuple) and st(l[1])[0] == 'bin' and st(l[1])[1] == 'Sub' and _slice_len_of(st(l[1])[2]) is not None:
            fits.append((st(st(l[1])[3]), st(l[2])))
    x, y = b[2], b[3]
    if b[1] == 'SubWithOverflow':
        X = _slice_len_of(x)
        if X is None:
            return False
        y = st(y)
        def is_below(t):
            # t < len(X): established by the path, or t = start + offset with the offset found by position() from `start` on in X
            t = st(t)
            if (X, t) in below:
                return True
            return isinstance(t, tuple) and t[0] == 'bin' and t[1] == 'Add' and lib.found_offset_sum(t[2], t[3]) == X
        if is_below(y):
            return True
        if isinstance(y, tuple) and y[0] == 'bin' and y[1] == 'Add':
            for p_, k_ in ((y[2], y[3]), (y[3], y[2])):
                if lib.term_int(k_) == 1 and is_below(p_):
                    return True
        return False
    x, y = st(x), st(y)
    return (x, y) in fits or (y, x) in fits


def _array_len_of_term(body, t):
    """fixed length of the array a place term denotes (`self.field` of array type, or an array-typed parameter), else None"""
    while isinstance(t, tuple) and t and t[0] in ('ref', 'cast'):
        t = t[1]
    facts = lib._TL.facts
    if isinstance(t, tuple) and len(t) == 3 and t[0] == 'field' and facts is not None:
        base = t[1]
        while isinstance(base, tuple) and base and base[0] in ('deref', 'ref'):
            base = base[1]
        if isinstance(base, tuple) and base[0] == 'param' and base[1] < len(body.locals):
            ty = re.sub(r"^&(?:'[a-z_0-9]+ )?(?:mut )?", '', body.locals[base[1]].get('ty') or '')
            adt = facts.adts.get(ty)
            if adt and len(adt.get('variants', [])) == 1:
                for fd in adt['variants'][0]['fields']:
                    if fd.get('name') == t[2]:
                        return ranges._array_len(fd.get('ty_norm') or fd.get('ty'))
    return None


def _enumerate_index_below(body, idx, n):
    """idx is the counter of `for (i, _) in ARRAY.iter().enumerate()` over a fixed-size array of at most n elements"""
    idx = lib.strip_transparent(idx)
    if not (isinstance(idx, tuple) and len(idx) == 3 and idx[0] == 'field' and idx[2] == '0'):
        return False
    e = idx[1]
    if not (isinstance(e, tuple) and len(e) == 3 and e[0] == 'field' and e[2] == '0' and isinstance(e[1], tuple) and e[1][0] == 'downcast' and e[1][2] == 'Some'):
        return False
    nx = e[1][1]
    if not (isinstance(nx, tuple) and nx[0] == 'call' and nx[1].split('::')[-1] == 'next' and 'Enumerate' in nx[1]):
        return False
    it = nx[2][0]
    while isinstance(it, tuple) and it and (it[0] in ('ref', 'deref') or (it[0] == 'call' and len(it[2]) == 1 and it[1].split('::')[-1] == 'into_iter')):
        it = it[1] if it[0] != 'call' else it[2][0]
    if not (isinstance(it, tuple) and it[0] == 'call' and it[1].split('::')[-1] == 'enumerate' and len(it[2]) == 1):
        return False
    src = it[2][0]
    if not (isinstance(src, tuple) and src[0] == 'call' and src[1].split('::')[-1] in ('iter', 'iter_mut') and src[1].startswith('core::slice::') and len(src[2]) == 1):
        return False
    k = _array_len_of_term(body, src[2][0])
    return k is not None and k <= n


def _body_sym(body):
    cache = body.__dict__.get('_assert_sym')
    if cache is None:
        try:
            s = lib.Sym(body, max_paths=3000)
            s.run()
            cache = s
        except lib.Lost:
            cache = False
        body._assert_sym = cache
    return cache


def path_safe_call(body, block):
    """path-sensitive discharge of a panic-capable slice call: `s.split_at(n)` with n the index `s.iter().position(..)` found
    (n < s.len()) on every enumerated path through the site"""
    cache = _body_sym(body)
    if not cache:
        return None
    n = 0
    for p in cache.paths:
        for e in p.effects:
            if e[0] != 'call' or e[3] != block:
                continue
            n += 1
            if not (e[1] and e[1].startswith('core::slice::') and e[1].split('::')[-1] in ('split_at', 'split_at_mut') and len(e[2]) == 2):
                return None
            pc = lib.position_payload(e[2][1])
            if pc is None or lib.strip_transparent(lib.iterated_slice(pc[2][0])) != lib.strip_transparent(e[2][0]):
                return None
    return 'on all %d paths through the site the split point is an index found by position() in the very slice that is split' % n if n else None


def path_safe_assert(body, block):
    """path-sensitive discharge of an Assert: on every enumerated path through `block` the asserted condition is either a
    constant that holds, or the very comparison the path has already branched on with the outcome the assert needs
    (`if i < n { a[i] }`, `if i >= n { i = 0 } a[i]`)"""
    cache = body.__dict__.get('_assert_sym')
    if cache is None:
        try:
            s = lib.Sym(body, max_paths=3000)
            s.run()
            cache = s
        except lib.Lost:
            cache = False
        body._assert_sym = cache
    if not cache:
        return None
    n = 0
    for p in cache.paths:
        for e in p.effects:
            if e[0] != 'assert' or e[3] != block:
                continue
            n += 1
            c = e[2]
            exp = bool(body.blocks[block]['term'].get('expected', True))
            if isinstance(c, tuple) and c[0] == 'overflow' and isinstance(c[1], tuple) and c[1][0] == 'bin' and c[1][1] == 'AddWithOverflow':
                # `start + offset` with the offset found by position() in the part of a slice beginning at `start`, and
                # that index plus a small constant: bounded by the slice length (<= isize::MAX), cannot wrap
                a, b = c[1][2], c[1][3]
                if lib.found_offset_sum(a, b) is not None:
                    continue
                inner, kk = (a, lib.term_int(b)) if lib.term_int(b) is not None else (b, lib.term_int(a))
                if kk is not None and 0 <= kk < 2 ** 62 and isinstance(inner, tuple) and inner[0] == 'bin' and inner[1] == 'Add' \
                        and lib.found_offset_sum(inner[2], inner[3]) is not None:
                    continue
            if isinstance(c, tuple) and c[0] == 'overflow' and isinstance(c[1], tuple) and c[1][0] == 'bin' and c[1][1] in ('AddWithOverflow', 'SubWithOverflow') \
                    and _relational_safe(c[1], p.conds):
                continue
            if e[1] == 'bounds' and isinstance(c, tuple) and c[0] == 'bin' and c[1] == 'Lt' and lib.term_int(c[3]) is not None \
                    and _enumerate_index_below(body, c[2], lib.term_int(c[3])):
                continue
            k = lib.term_int(c)
            if k is not None:
                if bool(k) != exp:
                    return None
                continue
            want = lib.literal((c, ('not', (0,)) if exp else 0, block, 'bool'))
            if want[3] is None:
                return None
            held = False
            def fold_len(t):
                # `ARRAY.len()` of a fixed-size array field is its declared length
                if isinstance(t, tuple) and t and t[0] == 'call' and t[1].startswith('core::slice::') and t[1].split('::')[-1] == 'len' and len(t[2]) == 1:
                    a0 = t[2][0]
                    while isinstance(a0, tuple) and a0 and a0[0] in ('ref', 'cast'):
                        a0 = a0[1]
                    n_ = _array_len_of_term(body, a0)
                    if n_ is not None:
                        return ('int', n_, None)
                return t
            for cc in p.conds:
                l = lib.literal(cc)
                if l[0] == want[0] and _same(fold_len(l[1]), want[1]) and _same(fold_len(l[2]), want[2]) and l[3] is want[3]:
                    held = True
                    break
            if not held:
                return None
    return 'on all %d paths through the site the checked comparison was already established (or folds to a constant)' % n if n else None


def sites(ctx):
    out = []
    for body in ctx.f.body_list:
        if body.kind in ('stolen', 'const', 'static', 'anon_const', 'assoc_const', 'inline_const'):
            continue
        reach = body.reachable(0)
        for i, blk in enumerate(body.blocks):
            if blk['cleanup'] or i not in reach:
                continue
            t = blk['term']
            ex = t.get('ex', [])
            macro = [e[2:] for e in ex if e.startswith('m:')]
            if t['k'] == 'assert':
                kind = t['assert']
                if kind.startswith('resumed'):
                    continue
                if assert_is_const_safe(body, t):
                    out.append({'body': body.path, 'block': i, 'kind': 'assert', 'desc': 'const-safe:' + kind, 'sp': t['sp'], 'macro': macro, 'auto': 'operands are compile-time integers and the check holds'})
                    continue
                why = ranges.prove_site(body, i, t)
                if why is None:
                    why = path_safe_assert(body, i)
                if why is not None:
                    out.append({'body': body.path, 'block': i, 'kind': 'assert', 'desc': 'range-safe:' + kind, 'sp': t['sp'], 'macro': macro, 'auto': why})
                    continue
                if kind == 'bounds':
                    desc = 'bounds(index=%s)' % producer(body, t['index'])
                else:
                    # operand of the checked arithmetic: look at the defining statement of cond's base local
                    c = t['cond']
                    d = '?'
                    if c['k'] in ('copy', 'move'):
                        ds = defs_of(body, c['place']['l'])
                        if len(ds) == 1 and ds[0][0] == 'assign' and ds[0][1]['k'] == 'bin':
                            rv = ds[0][1]
                            d = '%s, %s' % (producer(body, rv['a']), producer(body, rv['b']))
                        elif len(ds) == 1 and ds[0][0] == 'assign':
                            d = producer(body, c)
                    desc = '%s(%s)' % (kind, d)
                out.append({'body': body.path, 'block': i, 'kind': 'assert', 'desc': desc, 'sp': t['sp'], 'macro': macro})
            elif t['k'] == 'call':
                c = callee(t)
                if c is None:
                    continue
                path = c.get('resolved') or c['path']
                full = c['path']
                if t['target'] is None or DIVERGE_RX.search(path):
                    if 'tracing' in path:
                        continue
                    m = macro[-1] if macro else ''
                    # the explicit macro that produced the panic (assert!, unreachable!, panic!, assert_eq!) and its condition
                    desc = 'diverge:%s[%s]' % (short(path), '/'.join(x for x in macro if x in ('assert', 'assert_eq', 'assert_ne', 'unreachable', 'panic', 'todo', 'unimplemented', 'debug_assert', 'select', 'tokio::select', 'pin')) or m)
                    out.append({'body': body.path, 'block': i, 'kind': 'diverge', 'desc': desc, 'sp': t['sp'], 'macro': macro})
                elif array_range_is_safe(body, t, full):
                    out.append({'body': body.path, 'block': i, 'kind': 'call', 'desc': 'const-safe:array-range', 'sp': t['sp'], 'macro': macro, 'auto': 'constant range within a fixed-size array'})
                elif (PANIC_CALL_RX.search(path) or PANIC_CALL_RX.search(full)) and ranges.prove_site(body, i, t) is not None:
                    out.append({'body': body.path, 'block': i, 'kind': 'call', 'desc': 'range-safe:' + short(full), 'sp': t['sp'], 'macro': macro, 'auto': ranges.prove_site(body, i, t)})
                elif (PANIC_CALL_RX.search(path) or PANIC_CALL_RX.search(full)) and path_safe_call(body, i) is not None:
                    out.append({'body': body.path, 'block': i, 'kind': 'call', 'desc': 'range-safe:' + short(full), 'sp': t['sp'], 'macro': macro, 'auto': path_safe_call(body, i)})
                elif PANIC_CALL_RX.search(path) or PANIC_CALL_RX.search(full):
                    a0 = producer(body, t['args'][0]) if t['args'] else ''
                    a1 = producer(body, t['args'][1]) if len(t['args']) > 1 else None
                    desc = '%s(%s%s)' % (short(full), a0, (', ' + a1) if a1 is not None else '')
                    out.append({'body': body.path, 'block': i, 'kind': 'call', 'desc': desc, 'sp': t['sp'], 'macro': macro})
    return out


if __name__ == '__main__':
    import sys
    from .facts import Facts
    f = Facts(sys.argv[1])
    ctx = lib.Ctx(f)
    ss = sites(ctx)
    print(len(ss))
    for s in ss:
        print('%-75s %-8s %-70s %s %s' % (s['body'][-75:], s['kind'], s['desc'][:70], s['sp'], ','.join(s['macro'][-2:])))
