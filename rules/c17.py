"""C17 - every datagram the node emits fits its peers' 1500-byte receive buffer (size algebra).

Decides: for every Socket::send / send_request site the message construction is resolved and a
worst-case bencoded size is computed from the wire schema (key names, length prefixes) and per-field
cardinality bounds taken from types and constants (ids 20 bytes, own transaction ids 8 bytes, tokens
20 bytes, Vec::new() = 0 elements, ..take(k).collect() <= k elements, anything else = unbounded); the
bound must not exceed the receive-buffer literal of Socket::recv (1500). The uncapped `values` list
of get_peers replies is the listed known finding; any other unbounded or oversized construction is a
violation."""
from . import lib, common, c05, c15
from .lib import (Sym, Lost, literal, term_int, strip_transparent, is_field_of_param, agg_variant, field_chain, root_of,
                  is_param, find_calls, fmt)
from .c05 import pipeline, message_of_send, body_of_message, is_empty_vec

EXPLANATION = __doc__
ASSUMPTIONS = ['echoed transaction ids are at most 32 bytes (the property\'s own quantifier)',
               'a token echoed in announce_peer is at most 20 bytes (tokens issued by instances of this implementation; a hostile remote could hand out a longer one)',
               'key names and value encodings are those of the wire schema checked by C13']

INF = float('inf')
ECHO_TID = 32
REMOTE_TOKEN = 20


def bstr(n):
    """bencoded byte string of n bytes"""
    if n == INF:
        return INF
    return len(str(int(n))) + 1 + n


def key(k):
    return bstr(len(k))


def bint(maxval):
    return 1 + len(str(int(maxval))) + 1


class Sizer:
    def __init__(self, ctx, res):
        self.ctx = ctx
        self.res = res
        self.notes = []

    def vec_bound(self, t, depth=0):
        """upper bound on the number of elements of a Vec-valued term"""
        t0 = t
        t = strip_transparent(t) if not (isinstance(t, tuple) and t[0] == 'call') else t
        if is_empty_vec(t):
            return 0
        if t[0] == 'call' and t[1].endswith('::collect'):
            pl = pipeline(t)
            b = INF
            for x in pl:
                if x[0] == 'take' and term_int(x[1]) is not None:
                    b = min(b, term_int(x[1]))
            return b
        if t[0] == 'call' and t[1].endswith('vec::from_elem'):
            return term_int(t[2][1]) if term_int(t[2][1]) is not None else INF
        # component of a crate-local callee's result: (branch(f(..)) as Continue).0.i
        calls = [x for x in lib.term_walk(t) if isinstance(x, tuple) and x and x[0] == 'call' and self.ctx.f.body(x[1]) is not None and not x[1].endswith('{closure#0}')]
        fc = field_chain(t)
        if calls and depth < 2 and fc and fc[-1] in ('0', '1'):
            callee = calls[0][1]
            b = self.ctx.f.body(callee)
            s = Sym(b)
            s.run()
            best = 0
            for p in s.complete_paths():
                r = p.ret
                if agg_variant(r) == 'Ok':
                    r = r[2].get('0')
                if r[0] == 'agg' and r[1] == 'tuple' and fc[-1] in r[2]:
                    comp = r[2][fc[-1]]
                    lv = lib.loop_root(comp)
                    if lv is not None:
                        # a list grown in a loop: bounded when every iteration pushes at most once and the loop leaves when len == N
                        try:
                            st = lib.loop_stream(s, lv)
                            n = term_int(st['cap']) if st['cap'] is not None else None
                            best = max(best, n if n is not None else INF)
                        except lib.Lost:
                            best = INF
                        continue
                    best = max(best, self.vec_bound(comp, depth + 1))
                else:
                    best = INF
            return best
        return INF

    def bytes_bound(self, t, what):
        """upper bound on the length of a byte-string valued term"""
        t = strip_transparent(t)
        if t[0] == 'call' and t[1] == 'transaction::MIDGenerator::generate':
            return 8     # TransactionID.bytes: [u8; 8] (C19 TYPE rule)
        if t[0] == 'param' and t[2] == 'transaction_id':
            return 8     # make_find_node_request(TransactionID): as_ref().to_vec()
        if is_param(root_of(t), 'message') and field_chain(t) == ['transaction_id']:
            return ECHO_TID
        if t[0] == 'call' and t[1] == 'token::TokenStore::checkout':
            return 20    # Token wraps [u8; 20] (C06 TYPE rule)
        if find_calls(t, 'announce_tokens') or ((find_calls(t, '::get') or find_calls(t, '::filter_map')) and 'announce_tokens' in str(t)):
            return REMOTE_TOKEN
        if find_calls(t, '::filter_map') and self._closure_reads_tokens(t):
            return REMOTE_TOKEN
        if t[0] == 'str':
            return len(t[1].encode())
        self.notes.append('unbounded %s: %s' % (what, fmt(t)[:80]))
        return INF

    def _closure_reads_tokens(self, t):
        """a closure inside the term looks the token up in the `announce_tokens` map (whatever it captured)"""
        for x in lib.term_walk(t):
            if isinstance(x, tuple) and len(x) == 3 and x[0] == 'closure' and self.ctx.f.body(x[1]) is not None:
                cs = Sym(self.ctx.f.body(x[1]))
                cs.run()
                for p in cs.paths:
                    for e in p.effects:
                        if e[0] == 'call' and e[1] and e[1].split('::')[-1] == 'get' and e[2] and 'announce_tokens' in field_chain(strip_transparent(e[2][0])):
                            return True
        return False

    def request_size(self, inner):
        """size of the `a` dictionary and the `q` name of a Request aggregate"""
        v = agg_variant(inner)
        req = inner[2].get('0')
        f = req[2]
        a = 2  # d .. e
        a += key('id') + bstr(20)
        q = {'Ping': 'ping', 'FindNode': 'find_node', 'GetPeers': 'get_peers', 'AnnouncePeer': 'announce_peer'}[v]
        if v == 'FindNode':
            a += key('target') + bstr(20)
        if v in ('GetPeers', 'AnnouncePeer'):
            a += key('info_hash') + bstr(20)
        if v in ('FindNode', 'GetPeers'):
            w = f.get('want')
            if agg_variant(w) != 'None':
                a += key('want') + 2 + 2 * bstr(2)
        if v == 'AnnouncePeer':
            a += key('port') + bint(65535) + key('implied_port') + bint(1)
            a += key('token') + bstr(self.bytes_bound(f.get('token'), 'announce token'))
        return key('a') + a + key('q') + bstr(len(q))

    def response_size(self, r):
        f = r[2]
        sz = 2 + key('id') + bstr(20)
        detail = {}
        nv = self.vec_bound(f.get('values'))
        detail['values'] = nv
        if nv:
            sz += key('values') + 2 + (nv * bstr(18) if nv != INF else INF)   # worst case: IPv6 peers (18 bytes each)
        n4 = self.vec_bound(f.get('nodes_v4'))
        n6 = self.vec_bound(f.get('nodes_v6'))
        detail['nodes'] = n4
        detail['nodes6'] = n6
        if n4:
            sz += key('nodes') + bstr(26 * n4 if n4 != INF else INF)
        if n6:
            sz += key('nodes6') + bstr(38 * n6 if n6 != INF else INF)
        tok = f.get('token')
        if agg_variant(tok) == 'Some':
            tb = self.bytes_bound(tok[2].get('0'), 'token')
            detail['token'] = tb
            sz += key('token') + bstr(tb)
        elif agg_variant(tok) != 'None':
            sz = INF
        return key('r') + sz, detail

    def message_size(self, m):
        kind, inner = body_of_message(m)
        tid = self.bytes_bound(m[2].get('transaction_id'), 'transaction id')
        sz = 2 + key('t') + bstr(tid) + key('y') + bstr(1)
        detail = {'tid': tid}
        if kind == 'Request':
            rq = self.request_size(inner)
            if rq == INF:
                detail['args'] = INF
            sz += rq
        elif kind == 'Response':
            rs, d = self.response_size(inner)
            sz += rs
            detail.update(d)
        elif kind == 'Error':
            msg = inner[2].get('message')
            mb = self.bytes_bound(msg, 'error text')
            detail['text'] = mb
            sz += key('e') + 2 + bint(255) + bstr(mb)
        else:
            sz = INF
        return sz, kind, detail


def run(ctx, res):
    rb = ctx.co('socket::Socket::recv')
    res.touch(rb)
    buf = [t for i, t in rb.calls() if (lib.callee_path(t) or '').endswith('vec::from_elem')]
    limit = buf[0]['args'][1].get('int') if len(buf) == 1 else None
    res.check(limit == 1500, 'CONST', 'socket::Socket::recv', 'receive buffer literal = 1500 bytes', detail=str(limit))
    limit = limit or 1500
    sz = Sizer(ctx, res)
    sites = [x for x in ctx.calls_to('socket::Socket::send') + ctx.calls_to('socket::Socket::send_request') if not x.body.path.startswith('socket::')]
    res.sites += len(sites)
    res.check(len(sites) >= 5, 'WHO', 'socket::Socket::send', 'send / send_request sites outside socket.rs (floor 5)', detail=str(len(sites)))
    seen_blocks = set()
    bodies = {x.body.path: x.body for x in sites}
    for path, body in sorted(bodies.items()):
        res.touch(body)
        if path == c15.RUN + '::{closure#0}':
            s = Sym(body, max_paths=400000, merge_loop_exits=True)
        else:
            s = Sym(body, max_paths=200000)
        s.run(env=lib.coroutine_param_env(body) if body.kind == 'coroutine' else None)
        res.paths += len(s.paths)
        worst = {}
        disp = None
        if path.replace('::{closure#0}', '') == common.HANDLE_INCOMING:
            try:
                disp = common.Dispatcher(ctx)
            except Lost:
                disp = None
        for p in s.paths:
            # which arm of the dispatcher this path runs through (a reply built per arm may be sent by one shared statement)
            arm_p = ''
            if path.replace('::{closure#0}', '') == common.HANDLE_INCOMING:
                arm_p = '?:'
                if disp is not None:
                    pb = set(p.blocks)
                    for v in common.REQUEST_VARIANTS + ('Response', 'Error'):
                        if disp.arms[v] in pb:
                            arm_p = v + ':'
                            break
            for e in p.effects:
                if e[0] != 'call' or e[1] not in ('socket::Socket::send', 'socket::Socket::send_request'):
                    continue
                seen_blocks.add((path, e[3]))
                m = message_of_send(e)
                if m is None:
                    t = strip_transparent(e[2][1])
                    if t[0] == 'call' and ctx.f.body(t[1]) is not None:
                        cs = Sym(ctx.f.body(t[1]))
                        cs.run()
                        ms = [q.ret for q in cs.complete_paths() if q.ret[0] == 'agg' and q.ret[1] == 'message::Message::Message']
                        m = ms[0] if len(ms) == 1 else None
                    elif is_param(t, 'message') and path.startswith('action::bootstrap::TableBootstrapInner::send_to_initial_nodes'):
                        # forwarded parameter: sized at its construction site (make_find_node_request in the bootstrap task)
                        mb = ctx.f.body('action::bootstrap::TableBootstrapInner::make_find_node_request')
                        cs = Sym(mb)
                        cs.run()
                        ms = [q.ret for q in cs.complete_paths()]
                        m = ms[0] if len(ms) == 1 and ms[0][0] == 'agg' else None
                if m is None:
                    worst[(e[3], 'unresolved', arm_p)] = (INF, '?', {'message': fmt(e[2][1])[:100]})
                    continue
                size, kind, detail = sz.message_size(m)
                k = (e[3], kind, arm_p)
                if k not in worst or size > worst[k][0]:
                    worst[k] = (size, kind, detail)
        for (blk, kind, arm), (size, _, detail) in sorted(worst.items(), key=lambda x: str(x[0])):
            site = body.term(blk)['sp']
            anchor = path.replace('::{closure#0}', '')
            if size == INF:
                unb = [k2 for k2, v in detail.items() if v == INF] or ['?']
                for f in unb:
                    res.bad('SIZE', anchor, '%s.%s is unbounded: the datagram can exceed %d bytes' % (kind, f, limit), site=site, detail=str(detail) + ' ' + '; '.join(sz.notes[-2:]),
                            key='%s%s.%s|unbounded' % (arm, kind, f))
            else:
                res.check(size <= limit, 'SIZE', anchor, 'worst-case %s datagram = %d bytes <= %d' % (kind, size, limit), site=site, detail=str(detail), key='bound:%s%s' % (arm, kind))
    # every send site was reached by the enumeration
    missing = [(x.body.path, x.block) for x in sites if (x.body.path, x.block) not in seen_blocks]
    res.check(not missing, 'COVER', 'socket::Socket::send', 'every send site was sized', detail=str(missing))
    # raw datagram writes happen only in Socket::send, which encodes exactly the given message
    raw = ctx.calls_matching(r'SocketTrait::send_to$')
    raw_bodies = {s.body.path for s in raw if not s.body.path.startswith('<tokio::net::UdpSocket as SocketTrait>')}
    res.check(raw_bodies <= {'socket::Socket::send::{closure#0}'} and raw, 'WHO', 'SocketTrait::send_to', 'datagrams are written only by Socket::send', detail=str(sorted(raw_bodies)))
