"""Loading and pretty-printing of factgen output. Python 3 stdlib only."""
import json, os, re, sys

class Body:
    def __init__(self, j):
        self.j = j
        self.path = j['path']
        self.kind = j['kind']
        self.span = j.get('span')
        self.parent = j.get('parent')
        self.blocks = j.get('blocks', [])
        self.locals = j.get('locals', [])
        self.arg_count = j.get('arg_count', 0)
        self.upvars = j.get('upvars', [])
        self.names = {}
        for d in j.get('debug', []):
            p = d['place']
            if not p['p']:
                self.names.setdefault(p['l'], d['name'])
        self._succ = None
        self._pred = None

    # ---- CFG -------------------------------------------------------------------------------
    def term(self, b):
        return self.blocks[b]['term']

    def succs(self, b, unwind=False):
        """normal successors of block b (imaginary edges dropped, unwind edges optional)"""
        t = self.blocks[b]['term']
        k = t['k']
        out = []
        if k in ('goto', 'false_edge', 'false_unwind', 'drop', 'assert'):
            out.append(t['target'])
        elif k == 'switch':
            for v, tb in t['arms']:
                if tb not in out:
                    out.append(tb)
            if t['otherwise'] not in out:
                out.append(t['otherwise'])
        elif k == 'call':
            if t['target'] is not None:
                out.append(t['target'])
        elif k == 'yield':
            out.append(t['target'])
        if unwind and t.get('unwind') is not None:
            out.append(t['unwind'])
        return out

    def succ_map(self):
        if self._succ is None:
            self._succ = [self.succs(b) for b in range(len(self.blocks))]
        return self._succ

    def pred_map(self):
        if self._pred is None:
            pm = [[] for _ in self.blocks]
            for b, ss in enumerate(self.succ_map()):
                for s in ss:
                    pm[s].append(b)
            self._pred = pm
        return self._pred

    def reachable(self, start=0):
        seen = {start}
        st = [start]
        sm = self.succ_map()
        while st:
            b = st.pop()
            for s in sm[b]:
                if s not in seen:
                    seen.add(s)
                    st.append(s)
        return seen

    def calls(self):
        """iterate (block index, terminator) over call terminators of normal (non-cleanup) blocks"""
        for i, b in enumerate(self.blocks):
            if b['cleanup']:
                continue
            t = b['term']
            if t['k'] == 'call':
                yield i, t

    def local_name(self, l):
        return self.names.get(l)

    def local_is_user_mut(self, l):
        """a `let mut` variable of the source (as opposed to a compiler temporary or an immutable binding)"""
        try:
            d = self.locals[l]
        except IndexError:
            return False
        return bool(d.get('user')) and bool(d.get('mut'))


def callee(t):
    """resolved callee description of a call terminator: dict with path/full/resolved/... or None for indirect"""
    f = t['func']
    if f['k'] == 'const' and 'fn' in f:
        return f['fn']
    return None


def callee_path(t):
    c = callee(t)
    if c is None:
        return None
    return c.get('resolved') or c['path']


class Facts:
    def __init__(self, path, canonical=True):
        with open(path) as fh:
            self.j = json.load(fh)
        from . import canon, inline
        self.renames = []
        if canonical:
            ref = canon.load_reference()
            self.renames = canon.canonicalise(self.j, ref)
            self.renames += inline.inline_new_helpers(self.j, ref)
            self.renames += inline.expand_combinators(self.j)
        self.meta = self.j['meta']
        self.bodies = {}
        self.body_list = []
        for bj in self.j['bodies']:
            b = Body(bj)
            self.body_list.append(b)
            # closures get unique paths already ({closure#n}); consts named `_` may collide: keep first
            self.bodies.setdefault(b.path, b)
        self.consts = {}
        for c in self.j['consts']:
            self.consts.setdefault(c['path'], c)
        self.adts = {a['path']: a for a in self.j['items']['adts']}
        self.impls = self.j['items']['impls']
        self.fns = {f['path']: f for f in self.j['items']['fns']}
        self.mods = {m['path']: m for m in self.j['items']['mods']}
        self.attrs = {a['path']: a for a in self.j['attrs']}

    def body(self, path):
        return self.bodies.get(path)

    def coroutine_of(self, fn_path):
        """the coroutine body of an async fn (its {closure#0})"""
        return self.bodies.get(fn_path + '::{closure#0}')

    def const_value(self, path):
        c = self.consts.get(path)
        return None if c is None else c['value']

    def duration_ms(self, path):
        v = self.const_value(path)
        if isinstance(v, dict) and 'secs' in v:
            n = v['nanos']
            while isinstance(n, dict):
                n = list(n.values())[0]
            return v['secs'] * 1000 + n // 1000000
        return None


# ---- pretty printer (for humans; rules never parse this) ------------------------------------------
def fmt_place(p, body=None):
    s = '_%d' % p['l']
    if body is not None and body.local_name(p['l']) and not p['p']:
        s += '(%s)' % body.local_name(p['l'])
    for e in p['p']:
        if e == '*':
            s = '(*%s)' % s
        elif isinstance(e, dict):
            if 'f' in e:
                s += '.%s' % e['n']
            elif 'idx' in e:
                s += '[_%d]' % e['idx']
            elif 'cidx' in e:
                s += '[%s%d]' % ('-' if e['from_end'] else '', e['cidx'])
            elif 'dc' in e:
                s = '(%s as %s)' % (s, e['dc'])
            elif 'sub' in e:
                s += '[%d..%d]' % tuple(e['sub'])
        else:
            s += '.<%s>' % e
    return s


def fmt_op(o, body=None):
    if o['k'] in ('copy', 'move'):
        return ('move ' if o['k'] == 'move' else '') + fmt_place(o['place'], body)
    if o['k'] == 'const':
        if 'fn' in o:
            return 'fn ' + (o['fn'].get('resolved') or o['fn']['full'])
        if 'def' in o:
            return 'const %s' % o['def'] + ('=%s' % o['int'] if 'int' in o else '')
        if 'int' in o:
            return 'const %s' % o['int']
        if 'bytes' in o:
            return 'const %r' % o['bytes']
        return o.get('text', 'const ?')
    return '?'


def fmt_rv(r, body=None):
    k = r['k']
    if k == 'use':
        return fmt_op(r['op'], body)
    if k == 'ref':
        return '&%s%s' % ('mut ' if r['mut'] else ('fake ' if r['fake'] else ''), fmt_place(r['place'], body))
    if k == 'rawptr':
        return '&raw %s' % fmt_place(r['place'], body)
    if k == 'cast':
        return '%s as %s (%s)' % (fmt_op(r['op'], body), r['ty'], r['cast'])
    if k == 'bin':
        return '%s(%s, %s)' % (r['op'], fmt_op(r['a'], body), fmt_op(r['b'], body))
    if k == 'un':
        return '%s(%s)' % (r['op'], fmt_op(r['a'], body))
    if k == 'discr':
        return 'discriminant(%s)' % fmt_place(r['place'], body)
    if k == 'agg':
        ops = ', '.join(fmt_op(o, body) for o in r['ops'])
        a = r['agg']
        if a == 'adt':
            fs = r['fields']
            ops = ', '.join('%s: %s' % (fs[i] if i < len(fs) else i, fmt_op(o, body)) for i, o in enumerate(r['ops']))
            return '%s::%s { %s }' % (r['adt'], r['variant'], ops)
        if a in ('closure', 'coroutine', 'coroutine_closure'):
            return '%s %s [%s]' % (a, r['def'], ops)
        return '%s(%s)' % (a, ops)
    if k == 'repeat':
        return '[%s; %s]' % (fmt_op(r['op'], body), r['n'])
    if k == 'copy_for_deref':
        return 'deref_copy %s' % fmt_place(r['place'], body)
    return r.get('text', k)


def fmt_term(t, body=None):
    k = t['k']
    if k == 'call':
        f = t['func']
        fn = fmt_op(f, body)
        return '%s = %s(%s) -> %s' % (fmt_place(t['dest'], body), fn, ', '.join(fmt_op(a, body) for a in t['args']), t['target'])
    if k == 'switch':
        return 'switch(%s) [%s, otherwise: %s]' % (fmt_op(t['discr'], body), ', '.join('%s: %s' % (v, b) for v, b in t['arms']), t['otherwise'])
    if k == 'assert':
        return 'assert(%s == %s, %s) -> %s' % (fmt_op(t['cond'], body), t['expected'], t['assert'], t['target'])
    if k == 'drop':
        return 'drop(%s) -> %s' % (fmt_place(t['place'], body), t['target'])
    if k == 'yield':
        return 'yield(%s) -> %s' % (fmt_op(t['value'], body), t['target'])
    if 'target' in t:
        return '%s -> %s' % (k, t['target'])
    return k


def show(body, out=sys.stdout):
    out.write('// %s [%s] %s args=%d\n' % (body.path, body.kind, body.span, body.arg_count))
    for i, l in enumerate(body.locals):
        out.write('  let _%d: %s%s\n' % (i, l['ty'], '  // ' + body.names[i] if i in body.names else ''))
    for i, b in enumerate(body.blocks):
        out.write(' bb%d%s:\n' % (i, ' (cleanup)' if b['cleanup'] else ''))
        for s in b['stmts']:
            if s['k'] == 'assign':
                out.write('    %s = %s   // %s %s\n' % (fmt_place(s['place'], body), fmt_rv(s['rv'], body), s['sp'], ','.join(s['ex'])))
            elif s['k'] == 'set_discr':
                out.write('    discriminant(%s) = %s\n' % (fmt_place(s['place'], body), s['v']))
        t = b['term']
        out.write('    %s   // %s %s\n' % (fmt_term(t, body), t['sp'], ','.join(t['ex'])))


if __name__ == '__main__':
    f = Facts(sys.argv[1])
    pat = sys.argv[2] if len(sys.argv) > 2 else None
    for b in f.body_list:
        if pat is None:
            print(b.kind, b.path, len(b.blocks))
        elif re.search(pat, b.path):
            show(b)
