"""Engine D: run a property's rules on scratch copies of the repository with one patch applied.

  selftest/violations/<Cxx>-*.patch   must make ./check <Cxx> report a violation (still compiles)
  selftest/equivalents/<Cxx>-*.patch  behaviour-preserving edits: the check must stay silent

Scratch copies live under a fresh mkdtemp outside /repo and /verif and are removed at once."""
import os, sys, json, shutil, subprocess, tempfile, glob, time
from concurrent.futures import ThreadPoolExecutor

HERE = os.path.dirname(os.path.dirname(os.path.abspath(__file__)))


def scratch_copy(repo):
    d = tempfile.mkdtemp(prefix='btdht-scratch-')
    dst = os.path.join(d, 'repo')
    os.makedirs(dst)
    for name in ('src', 'Cargo.toml', 'Cargo.lock', 'tests', 'examples', 'README.md'):
        s = os.path.join(repo, name)
        if os.path.isdir(s):
            shutil.copytree(s, os.path.join(dst, name))
        elif os.path.exists(s):
            shutil.copy2(s, os.path.join(dst, name))
    return d, dst


def run_patch(prop, patch, repo='/repo'):
    """returns dict(status='applied'|'skipped', violations=[...])"""
    from . import run as R
    d, dst = scratch_copy(repo)
    try:
        r = subprocess.run(['patch', '-p1', '--no-backup-if-mismatch', '-s', '-i', os.path.abspath(patch)], cwd=dst,
                           stdout=subprocess.PIPE, stderr=subprocess.STDOUT, text=True)
        if r.returncode != 0:
            return {'status': 'skipped', 'why': 'patch does not apply: ' + r.stdout.strip()[:200], 'violations': []}
        out = os.path.join(d, 'facts.json')
        try:
            R.gen_facts(dst, out=out)
        except SystemExit:
            return {'status': 'skipped', 'why': 'patched tree does not compile', 'violations': []}
        res, facts, nfiles, mod = R.analyse(prop, dst, facts_path=out)
        known = {k['key'] for k in R.load_known().get('open', [])}
        return {'status': 'applied', 'violations': [v['key'] for v in res.violations() if v['key'] not in known], 'records': len(res.records)}
    finally:
        shutil.rmtree(d, ignore_errors=True)


def _job(args):
    prop, patch, repo = args
    return (patch, run_patch(prop, patch, repo))


def run_for(prop, repo='/repo'):
    vio = sorted(glob.glob(os.path.join(HERE, 'selftest', 'violations', prop + '-*.patch')))
    # mutants written by independent sub-agents (kept with their demonstration under seeded/)
    vio += sorted(glob.glob(os.path.join(HERE, 'seeded', prop + '-*', 'patch.diff')))
    eqv = sorted(glob.glob(os.path.join(HERE, 'selftest', 'equivalents', prop + '-*.patch')))
    failures = []
    det = tot = sil = etot = skipped = 0
    details = []
    # one process per patched tree (the analysis is CPU-bound Python; threads would share one core)
    from concurrent.futures import ProcessPoolExecutor
    with ProcessPoolExecutor(max_workers=min(10, os.cpu_count() or 4)) as ex:
        vr = list(ex.map(_job, [(prop, p, repo) for p in vio]))
        er = list(ex.map(_job, [(prop, p, repo) for p in eqv]))
    for p, r in vr:
        name = os.path.basename(p) if not p.endswith('patch.diff') else 'seeded/' + os.path.basename(os.path.dirname(p))
        if r['status'] == 'skipped':
            skipped += 1
            details.append({'patch': name, 'result': 'skipped', 'why': r.get('why')})
            continue
        tot += 1
        if r['violations']:
            det += 1
            details.append({'patch': name, 'result': 'detected', 'keys': r['violations'][:3]})
        else:
            failures.append({'patch': name, 'what': 'seeded violation not detected by the %s rules' % prop})
            details.append({'patch': name, 'result': 'MISSED'})
    for p, r in er:
        name = os.path.basename(p)
        if r['status'] == 'skipped':
            skipped += 1
            details.append({'patch': name, 'result': 'skipped', 'why': r.get('why')})
            continue
        etot += 1
        if not r['violations']:
            sil += 1
            details.append({'patch': name, 'result': 'silent'})
        else:
            failures.append({'patch': name, 'what': 'behaviour-preserving edit raised an alarm', 'detail': r['violations'][:3]})
            details.append({'patch': name, 'result': 'FALSE-ALARM', 'keys': r['violations'][:3]})
    return {'seeded_violations_detected': det, 'seeded_violations_total': tot, 'equivalents_silent': sil,
            'equivalents_total': etot, 'selftest_skipped': skipped, 'selftest_details': details, 'failures': failures}


if __name__ == '__main__':
    prop = sys.argv[1]
    if len(sys.argv) > 2:
        for p in sys.argv[2:]:
            print(p, json.dumps(run_patch(prop, p), indent=1))
    else:
        print(json.dumps(run_for(prop), indent=1))


def run_patch_all(patch, repo='/repo', props=None):
    """apply one patch to a scratch copy, extract facts once, run the rules of every property"""
    from . import run as R
    import importlib
    from . import lib
    from .facts import Facts
    props = props or R.PROPS
    d, dst = scratch_copy(repo)
    try:
        r = subprocess.run(['patch', '-p1', '--no-backup-if-mismatch', '-s', '-i', os.path.abspath(patch)], cwd=dst,
                           stdout=subprocess.PIPE, stderr=subprocess.STDOUT, text=True)
        if r.returncode != 0:
            return {'status': 'skipped', 'why': 'patch does not apply: ' + r.stdout.strip()[:300]}
        out = os.path.join(d, 'facts.json')
        try:
            R.gen_facts(dst, out=out)
        except SystemExit:
            return {'status': 'skipped', 'why': 'patched tree does not compile'}
        known = {k['key'] for k in R.load_known().get('open', [])}
        res_all = {}
        for prop in props:
            res, facts, nfiles, mod = R.analyse(prop, dst, facts_path=out)
            v = [x for x in res.violations() if x['key'] not in known]
            if v:
                res_all[prop] = [(x['key'], (x.get('detail') or '')[:160]) for x in v]
        return {'status': 'applied', 'violations': res_all}
    finally:
        shutil.rmtree(d, ignore_errors=True)
