"""MIR-level normalisation of the fact file: helper functions that did not exist in the reviewed tree are
inlined into their callers before any rule runs.

Why: the rules are anchored on the functions of the reviewed tree ("the dispatcher", "the refresh round").
Extracting part of such a function into a new private helper (sync or `async fn`) is behaviour-preserving, but
it moves call sites, conditions and writes out of the anchored body.  Splicing the helper's MIR back into
each caller gives the rules the program they were written for; the transformation is the textbook inlining
of a non-recursive call and preserves behaviour, so a verdict on the normalised facts is a verdict on the
source.  A helper that cannot be inlined (recursive, address taken, future not awaited in place) is left
alone and is met by the rules as an unknown function (fail closed).

  * sync helper:   args -> fresh locals, callee blocks appended, `return` -> `dest = _0'; goto target`
  * async helper:  `H(args).await` (the compiler's into_future / poll / yield loop, recognised by its
                   `d:Await` expansion marker) is replaced by the coroutine body of H: captured variables
                   (`_1.i`) become the argument locals, `return` becomes `poll_result = Poll::Ready(_0')`
                   and continues at the Ready arm; the callee's own yields stay yields of the caller.
"""
import copy

MAX_BLOCKS = 6000
MAX_ROUNDS = 6

_BLOCK_KEYS = ('target', 'unwind', 'otherwise', 'imaginary', 'drop')


def _remap(x, lmap, bmap, env=None):
    """deep copy of a MIR JSON fragment with locals and block indices renumbered.
    env: (callee env local, {field index: new local}) - rewrites `_env.i...` / `(*_env).i...` to the new local"""
    if isinstance(x, list):
        return [_remap(v, lmap, bmap, env) for v in x]
    if not isinstance(x, dict):
        return x
    out = {}
    if env is not None and x.get('k') == 'drop' and isinstance(x.get('place'), dict) and x['place'].get('l') == env[0] and not x['place'].get('p'):
        # dropping the coroutine environment at exit = dropping the captured arguments: nothing the rules look at
        return {'k': 'goto', 'target': bmap(x['target']), 'sp': x.get('sp'), 'ex': x.get('ex', [])}
    if 'l' in x and 'p' in x:                      # a place
        l = x['l']
        p = x['p']
        if env is not None and l == env[0]:
            q = list(p)
            if q and q[0] == '*':
                q = q[1:]
            if q and isinstance(q[0], dict) and 'f' in q[0] and q[0]['f'] in env[1]:
                out = dict(x)
                out['l'] = env[1][q[0]['f']]
                out['p'] = [_remap(e, lmap, bmap, env) for e in q[1:]]
                return out
            raise _NoInline('environment used as a whole')
        out = dict(x)
        out['l'] = lmap(l)
        out['p'] = [_remap(e, lmap, bmap, env) for e in p]
        return out
    for k, v in x.items():
        if k == 'l' and isinstance(v, int):
            out[k] = lmap(v)
        elif k == 'idx' and isinstance(v, int):
            out[k] = lmap(v)
        elif k in _BLOCK_KEYS and isinstance(v, int) and not isinstance(v, bool):
            out[k] = bmap(v)
        elif k == 'arms' and isinstance(v, list):
            out[k] = [[a, bmap(bb)] for a, bb in v]
        else:
            out[k] = _remap(v, lmap, bmap, env)
    return out


class _NoInline(Exception):
    pass


def _callee_of(t):
    if t.get('k') != 'call':
        return None
    f = t.get('func') or {}
    if f.get('k') == 'const' and 'fn' in f and f['fn'].get('local'):
        return f['fn']['path']
    return None


def _assign(place_l, ty, op, sp):
    return {'k': 'assign', 'place': {'l': place_l, 'p': [], 'ty': ty}, 'rv': {'k': 'use', 'op': op}, 'sp': sp, 'ex': []}


def _inline_sync(caller, bi, callee):
    blocks = caller['blocks']
    t = blocks[bi]['term']
    args = t['args']
    if len(args) != callee['arg_count']:
        raise _NoInline('arity')
    base = len(caller['locals'])
    boff = len(blocks)
    if boff + len(callee['blocks']) > MAX_BLOCKS:
        raise _NoInline('size')
    lmap = lambda l: base + l
    bmap = lambda b: boff + b
    new_blocks = _remap(callee['blocks'], lmap, bmap)
    new_locals = copy.deepcopy(callee['locals'])
    _subst_const_generic(callee, t, new_blocks, new_locals)
    target = t.get('target')
    dest = t['dest']
    for nb in new_blocks:
        nt = nb['term']
        if nt['k'] == 'return':
            nb['stmts'].append({'k': 'assign', 'place': copy.deepcopy(dest), 'rv': {'k': 'use', 'op': {'k': 'move', 'place': {'l': base, 'p': [], 'ty': callee['locals'][0]['ty']}}},
                                'sp': t.get('sp'), 'ex': []})
            nb['term'] = {'k': 'goto', 'target': target, 'sp': nt.get('sp'), 'ex': nt.get('ex', [])} if target is not None else {'k': 'unreachable', 'sp': nt.get('sp'), 'ex': []}
        elif nt['k'] == 'tailcall':
            raise _NoInline('tailcall')
    caller['locals'].extend(new_locals)
    for d in callee.get('debug', []):
        nd = dict(d)
        nd['place'] = _remap(d['place'], lmap, bmap)
        nd['arg'] = None
        caller.setdefault('debug', []).append(nd)
    for i, a in enumerate(args):
        blocks[bi]['stmts'].append(_assign(base + 1 + i, callee['locals'][1 + i]['ty'], copy.deepcopy(a), t.get('sp')))
    blocks[bi]['term'] = {'k': 'goto', 'target': boff, 'sp': t.get('sp'), 'ex': t.get('ex', [])}
    blocks.extend(new_blocks)


def _subst_const_generic(callee, call_term, new_blocks, new_locals):
    """a helper with ONE const generic parameter called as `f::<2048>(..)`: the parameter becomes that number in the copy"""
    import re as _re
    names = set()

    def find(x):
        if isinstance(x, dict):
            if x.get('k') == 'const' and 'int' not in x and 'def' not in x and 'fn' not in x and isinstance(x.get('text'), str) and _re.fullmatch(r'[A-Z][A-Z0-9_]*', x['text']):
                names.add(x['text'])
            for v in x.values():
                find(v)
        elif isinstance(x, list):
            for v in x:
                find(v)
    find(callee['blocks'])
    full = ((call_term.get('func') or {}).get('fn') or {}).get('full', '')
    m = _re.search(r'::<([^<>]*)>$', full)
    if len(names) != 1 or not m:
        return
    ints = [a.strip() for a in m.group(1).split(',') if _re.fullmatch(r'\s*\d+(_usize)?\s*', a)]
    if len(ints) != 1:
        return
    name = names.pop()
    val = int(ints[0].replace('_usize', ''))
    rx = _re.compile(r'(?<![A-Za-z0-9_])%s(?![A-Za-z0-9_])' % _re.escape(name))

    def sub(x):
        if isinstance(x, dict):
            if x.get('k') == 'const' and x.get('text') == name and 'int' not in x:
                x['int'] = val
            for k, v in list(x.items()):
                if isinstance(v, str) and k in ('ty', 'len', 'n') and name in v:
                    x[k] = rx.sub(str(val), v)
                else:
                    sub(v)
        elif isinstance(x, list):
            for v in x:
                sub(v)
    sub(new_blocks)
    sub(new_locals)


def _has_marker(x, m='d:Await'):
    return m in (x.get('ex') or [])


def _follow_await(caller, bi, fut_local):
    """from the block whose call produced the future in `fut_local`, recognise the await desugaring.
    returns dict(poll_dest=place, ready_block=int, dead=[block indices of the poll loop])"""
    blocks = caller['blocks']
    t = blocks[bi]['term']
    nb = t.get('target')
    if nb is None:
        raise _NoInline('diverging')
    dead = []
    # block nb: into_future(move fut)
    t1 = blocks[nb]['term']
    if not (t1['k'] == 'call' and _has_marker(t1) and (t1['func'].get('fn') or {}).get('path', '').endswith('IntoFuture::into_future')):
        raise _NoInline('future is not awaited in place')
    a0 = t1['args'][0]
    if not (a0.get('k') in ('move', 'copy') and a0['place']['l'] == fut_local and not a0['place']['p']):
        raise _NoInline('another future is awaited')
    dead.append(nb)
    cur = t1['target']
    steps = 0
    poll = None
    while steps < 12:
        steps += 1
        bl = blocks[cur]
        tt = bl['term']
        if not _has_marker(tt):
            raise _NoInline('await shape')
        dead.append(cur)
        if tt['k'] in ('goto', 'false_unwind'):
            cur = tt['target']
            continue
        if tt['k'] == 'call':
            p = (tt['func'].get('fn') or {}).get('path', '')
            if p.endswith('Future::poll'):
                poll = tt
                break
            if p.endswith('new_unchecked') or p.endswith('get_context'):
                cur = tt['target']
                continue
        raise _NoInline('await shape')
    if poll is None:
        raise _NoInline('await shape')
    sw = blocks[poll['target']]
    if sw['term']['k'] != 'switch' or not _has_marker(sw['term']):
        raise _NoInline('await shape')
    dead.append(poll['target'])
    arms = dict((a, b) for a, b in sw['term']['arms'])
    if 0 not in arms or 1 not in arms:
        raise _NoInline('await shape')
    ready = arms[0]
    if blocks[ready]['term']['k'] == 'false_edge' and not blocks[ready]['stmts']:
        dead.append(ready)
        ready = blocks[ready]['term']['target']
    # the Pending arm: (false_edge ->) block that yields
    pend = arms[1]
    hops = 0
    # (the Pending arm may first drop temporaries of the awaited expression before it yields)
    while hops < 6 and blocks[pend]['term']['k'] in ('false_edge', 'goto', 'drop') and _has_marker(blocks[pend]['term']):
        dead.append(pend)
        pend = blocks[pend]['term']['target']
        hops += 1
    if blocks[pend]['term']['k'] != 'yield':
        raise _NoInline('await shape (pending arm)')
    dead.append(pend)
    resume = blocks[pend]['term']['target']
    # the resume block stores the new context and jumps back to the loop head
    dead.append(resume)
    return {'poll_dest': poll['dest'], 'ready': ready, 'dead': dead, 'otherwise': sw['term'].get('otherwise')}


def _inline_async(caller, bi, outer, co):
    """caller block bi calls the async fn `outer`; its coroutine body is `co`"""
    if caller['kind'] != 'coroutine':
        raise _NoInline('caller is not a coroutine')
    ob = outer['blocks']
    # the outer function only builds the coroutine (plus drop glue for its by-value parameters)
    if any(bl['term']['k'] not in ('return', 'drop', 'goto', 'resume', 'unreachable') for bl in ob):
        raise _NoInline('outer shape')
    aggs = [s for bl in ob for s in bl['stmts'] if s['k'] == 'assign']
    if len(aggs) != 1 or aggs[0]['rv'].get('k') != 'agg' or aggs[0]['rv'].get('agg') != 'coroutine' or aggs[0]['place']['l'] != 0 or aggs[0]['place']['p']:
        raise _NoInline('outer shape')
    blocks = caller['blocks']
    t = blocks[bi]['term']
    args = t['args']
    dest = t['dest']
    if dest['p']:
        raise _NoInline('future stored in a field')
    aw = _follow_await(caller, bi, dest['l'])
    # capture i of the coroutine <- operand built from the outer fn's parameters
    caps = []
    for op in aggs[0]['rv']['ops']:
        if op.get('k') in ('move', 'copy') and not op['place']['p'] and 1 <= op['place']['l'] <= len(args):
            caps.append(copy.deepcopy(args[op['place']['l'] - 1]))
        elif op.get('k') == 'const':
            caps.append(copy.deepcopy(op))
        else:
            raise _NoInline('capture is not a parameter')
    base = len(caller['locals'])
    boff = len(blocks)
    if boff + len(co['blocks']) > MAX_BLOCKS:
        raise _NoInline('size')
    ncap = len(caps)
    cap_base = base + len(co['locals'])
    env = (1, {i: cap_base + i for i in range(ncap)})
    lmap = lambda l: base + l
    bmap = lambda b: boff + b
    new_blocks = _remap(co['blocks'], lmap, bmap, env)
    ret_ty = co['locals'][0]['ty']
    for nb in new_blocks:
        nt = nb['term']
        if nt['k'] == 'return':
            nb['stmts'].append({'k': 'assign', 'place': copy.deepcopy(aw['poll_dest']),
                                'rv': {'k': 'agg', 'agg': 'adt', 'adt': 'std::task::Poll', 'variant': 'Ready', 'vidx': 0, 'fields': ['0'],
                                       'ops': [{'k': 'move', 'place': {'l': base, 'p': [], 'ty': ret_ty}}]}, 'sp': t.get('sp'), 'ex': ['d:Await']})
            nb['term'] = {'k': 'goto', 'target': aw['ready'], 'sp': nt.get('sp'), 'ex': nt.get('ex', [])}
    caller['locals'].extend(copy.deepcopy(co['locals']))
    for i, c in enumerate(caps):
        ty = (c.get('place') or {}).get('ty') or c.get('ty') or '?'
        caller['locals'].append({'ty': ty, 'mut': False, 'user': False})
    names = co.get('upvars') or []
    for d in co.get('debug', []):
        nd = dict(d)
        try:
            nd['place'] = _remap(d['place'], lmap, bmap, env)
        except _NoInline:
            continue
        nd['arg'] = None
        caller.setdefault('debug', []).append(nd)
    for i in range(ncap):
        blocks[bi]['stmts'].append(_assign(cap_base + i, caller['locals'][cap_base + i]['ty'], caps[i], t.get('sp')))
        if i < len(names):
            caller.setdefault('debug', []).append({'name': names[i], 'place': {'l': cap_base + i, 'p': [], 'ty': caller['locals'][cap_base + i]['ty']}, 'arg': None})
    # the callee's resume argument (task context) is the caller's
    blocks[bi]['stmts'].append(_assign(base + 2, co['locals'][2]['ty'], {'k': 'copy', 'place': {'l': 2, 'p': [], 'ty': caller['locals'][2]['ty']}}, t.get('sp')))
    blocks[bi]['term'] = {'k': 'goto', 'target': boff, 'sp': t.get('sp'), 'ex': t.get('ex', [])}
    for d in aw['dead']:
        blocks[d] = {'cleanup': blocks[d]['cleanup'], 'stmts': [], 'term': {'k': 'unreachable', 'sp': blocks[d]['term'].get('sp'), 'ex': []}}
    blocks.extend(new_blocks)


def _refs(j, path):
    """number of remaining references (calls or function pointers) to `path` in any body"""
    n = 0

    def walk(x):
        nonlocal n
        if isinstance(x, dict):
            if x.get('path') == path and 'full' in x:
                n += 1
            for v in x.values():
                walk(v)
        elif isinstance(x, list):
            for v in x:
                walk(v)
    for b in j['bodies']:
        walk(b.get('blocks') or [])
    return n


def inline_new_helpers(j, ref):
    """inline every call to a function that is not part of the reference; returns notes for the evidence"""
    if not ref:
        return []
    fn_items = {f['path']: f for f in j['items']['fns']}
    new = {p for p in fn_items if p not in ref['fns']}
    if not new:
        return []
    notes = []
    failed = {}
    for rnd in range(MAX_ROUNDS):
        bodies = {}
        for b in j['bodies']:
            bodies.setdefault(b['path'], b)
        changed = False
        for b in j['bodies']:
            if b.get('kind') not in ('fn', 'method', 'closure', 'coroutine') or not b.get('blocks'):
                continue
            bi = 0
            while bi < len(b['blocks']):
                t = b['blocks'][bi]['term']
                cp = _callee_of(t)
                bi += 1
                if cp is None or cp not in new:
                    continue
                if b['path'] == cp or b['path'].startswith(cp + '::{'):
                    failed[cp] = 'recursive'
                    continue
                callee = bodies.get(cp)
                if callee is None or callee.get('kind') not in ('fn', 'method') or not callee.get('blocks'):
                    failed[cp] = 'no body'
                    continue
                # a callee that still contains calls to new helpers is inlined in a later round (leaf first)
                if any((_callee_of(bl['term']) or '') in new and (_callee_of(bl['term']) != cp) for bl in callee['blocks']) and rnd < MAX_ROUNDS - 2:
                    continue
                try:
                    if fn_items[cp].get('async'):
                        co = bodies.get(cp + '::{closure#0}')
                        if co is None or co.get('kind') != 'coroutine':
                            raise _NoInline('no coroutine body')
                        _inline_async(b, bi - 1, callee, co)
                    else:
                        _inline_sync(b, bi - 1, callee)
                    changed = True
                    notes.append('inlined %s into %s' % (cp, b['path']))
                except _NoInline as e:
                    failed[cp] = str(e)
        if not changed:
            break
    # helpers without remaining references disappear from the program the rules see
    gone = set()
    inlined_once = {n.split(' ')[1] for n in notes if n.startswith('inlined ')}
    for p in sorted(new):
        vis = fn_items[p].get('vis') or {}
        # a new function nobody calls, or one that is part of the exported surface, stays: the who-may-X rules must see it
        if p in inlined_once and _refs(j, p) == 0 and p not in failed and not vis.get('exported') and not vis.get('reachable'):
            gone.add(p)
    if gone:
        def keep(path):
            for g in gone:
                if path == g:
                    return False
                if path == g + '::{closure#0}' and fn_items[g].get('async'):
                    return False
            return True
        j['bodies'] = [b for b in j['bodies'] if keep(b['path'])]
        j['items']['fns'] = [f for f in j['items']['fns'] if f['path'] not in gone]
    for p, why in sorted(failed.items()):
        notes.append('NOT inlined %s: %s' % (p, why))
    return notes


# ---------------------------------------------------------------------------------------------------
# combinators: `opt.map_or(d, |x| ..)`, `res.is_ok_and(|x| ..)`, `opt.unwrap_or_else(|| ..)`, `cond.then(|| ..)`,
# `opt.filter(|x| ..)`, `iter.for_each(|x| ..)` are rewritten to the match / for form they stand for, with the
# closure body spliced in.  After this a rule sees the same control flow whichever spelling the source uses.

_COMB = {
    'std::option::Option::<T>::map_or': ('opt', 'map_or'),
    'std::result::Result::<T, E>::map_or': ('res', 'map_or'),
    'std::option::Option::<T>::is_some_and': ('opt', 'is_and'),
    'std::result::Result::<T, E>::is_ok_and': ('res', 'is_and'),
    'std::option::Option::<T>::unwrap_or_else': ('opt', 'unwrap_or_else'),
    'std::result::Result::<T, E>::unwrap_or_else': ('res', 'unwrap_or_else'),
    'core::bool::<impl bool>::then': ('bool', 'then'),
    'core::bool::<impl bool>::then_some': ('bool', 'then_some'),
    'std::option::Option::<T>::filter': ('opt', 'filter'),
    'std::iter::Iterator::for_each': ('iter', 'for_each'),
    'std::option::Option::<T>::map': ('opt', 'map'),
    'std::option::Option::<T>::and_then': ('opt', 'and_then'),
    'std::option::Option::<T>::or_else': ('opt', 'or_else'),
    'std::option::Option::<T>::ok_or_else': ('opt', 'ok_or_else'),
    'std::result::Result::<T, E>::map': ('res', 'map'),
    'std::result::Result::<T, E>::map_err': ('res', 'map_err'),
    'std::result::Result::<T, E>::and_then': ('res', 'and_then'),
}


def _mk_local(body, ty):
    body['locals'].append({'ty': ty, 'mut': True, 'user': False})
    return len(body['locals']) - 1


def _mk_block(body, stmts, term):
    body['blocks'].append({'cleanup': False, 'stmts': stmts, 'term': term})
    return len(body['blocks']) - 1


def _pl(l, ty='?', p=None):
    return {'l': l, 'p': p or [], 'ty': ty}


def _goto(b, sp=None):
    return {'k': 'goto', 'target': b, 'sp': sp, 'ex': []}


def _find_closure(body, op, depth=0):
    """the closure aggregate feeding operand `op`: (def path, statement location, aggregate statement)"""
    if op.get('k') not in ('move', 'copy'):
        return None
    if op['place']['p'] == ['*'] and depth < 4:
        # `*r` where r = &closure (a closure captured by reference by another closure)
        r = op['place']['l']
        rd = [st for bl in body['blocks'] for st in bl['stmts'] if st['k'] == 'assign' and st['place']['l'] == r and not st['place']['p']]
        if len(rd) == 1:
            rv = rd[0]['rv']
            if rv.get('k') == 'ref' and not rv['place']['p']:
                return _find_closure(body, {'k': 'copy', 'place': rv['place']}, depth + 1)
            if rv.get('k') == 'use' and rv['op'].get('k') in ('move', 'copy') and not rv['op']['place']['p']:
                return _find_closure(body, {'k': 'copy', 'place': {'l': rv['op']['place']['l'], 'p': ['*'], 'ty': '?'}}, depth + 1)
        return None
    if op['place']['p']:
        return None
    c = op['place']['l']
    found = []
    for bi, bl in enumerate(body['blocks']):
        for si, st in enumerate(bl['stmts']):
            if st['k'] == 'assign' and st['place']['l'] == c and not st['place']['p']:
                found.append((bi, si, st))
    if len(found) != 1:
        return None
    bi, si, st = found[0]
    rv = st['rv']
    if rv.get('k') == 'agg' and rv.get('agg') == 'closure':
        return rv['def'], bi, si, st
    # a copy of / a reference to the closure value (`&f`, `f` for Copy closures)
    if depth < 4:
        if rv.get('k') == 'use' and rv['op'].get('k') in ('move', 'copy'):
            return _find_closure(body, rv['op'], depth + 1)
        if rv.get('k') == 'ref' and not rv['place']['p']:
            return _find_closure(body, {'k': 'copy', 'place': rv['place']}, depth + 1)
    return None


def _count_uses(body, l):
    n = 0

    def walk(x):
        nonlocal n
        if isinstance(x, dict):
            if x.get('k') in ('move', 'copy') and isinstance(x.get('place'), dict) and x['place'].get('l') == l:
                n += 1
            elif x.get('k') == 'ref' and isinstance(x.get('place'), dict) and x['place'].get('l') == l:
                n += 1
            for v in x.values():
                walk(v)
        elif isinstance(x, list):
            for v in x:
                walk(v)
    walk(body['blocks'])
    return n


def _emit_call(body, bodies, fop, arg_ops, dest, target, sp, by_ref_env=False):
    """blocks that perform `dest = f(args)` and continue at `target`; returns the entry block.
    f is a closure aggregate of this body (spliced in) or a function item (a plain call)."""
    if fop.get('k') == 'const' and 'fn' in fop:
        return _mk_block(body, [], {'k': 'call', 'func': copy.deepcopy(fop), 'args': [copy.deepcopy(a) for a in arg_ops], 'dest': copy.deepcopy(dest),
                                    'target': target, 'unwind': None, 'sp': sp, 'ex': []})
    fc = _find_closure(body, fop)
    if fc is None:
        raise _NoInline('closure value not found')
    kpath, abi, asi, ast = fc
    k = bodies.get(kpath)
    if k is None or k.get('kind') != 'closure' or not k.get('blocks'):
        raise _NoInline('closure body')
    if k['arg_count'] != 1 + len(arg_ops):
        raise _NoInline('closure arity')
    if len(body['blocks']) + len(k['blocks']) > MAX_BLOCKS:
        raise _NoInline('size')
    ops = ast['rv']['ops']
    # the captured values are fixed where the closure is created
    caps = ast.setdefault('_cap_locals', None)
    if caps is None:
        caps = []
        pre = []
        for op in ops:
            ty = (op.get('place') or {}).get('ty') or op.get('ty') or '?'
            a = _mk_local(body, ty)
            caps.append(a)
            pre.append(_assign(a, ty, copy.deepcopy(op), ast.get('sp')))
        ast['_cap_locals'] = caps
        stl = body['blocks'][abi]['stmts']
        idx = stl.index(ast)
        stl[idx:idx] = pre
    base = len(body['locals'])
    boff = len(body['blocks'])
    env = (1, {i: caps[i] for i in range(len(caps))})
    lmap = lambda l: base + l
    bmap = lambda b: boff + b
    new_blocks = _remap(k['blocks'], lmap, bmap, env)
    for nb in new_blocks:
        nt = nb['term']
        if nt['k'] == 'return':
            nb['stmts'].append({'k': 'assign', 'place': copy.deepcopy(dest), 'rv': {'k': 'use', 'op': {'k': 'move', 'place': _pl(base, k['locals'][0]['ty'])}}, 'sp': sp, 'ex': []})
            nb['term'] = _goto(target, nt.get('sp'))
    body['locals'].extend(copy.deepcopy(k['locals']))
    for d in k.get('debug', []):
        nd = dict(d)
        try:
            nd['place'] = _remap(d['place'], lmap, bmap, env)
        except _NoInline:
            continue
        nd['arg'] = None
        body.setdefault('debug', []).append(nd)
    names = k.get('upvars') or []
    for i, a in enumerate(caps):
        if i < len(names) and not any(d.get('place', {}).get('l') == a for d in body.get('debug', [])):
            body.setdefault('debug', []).append({'name': names[i].replace('_ref__', ''), 'place': _pl(a, body['locals'][a]['ty']), 'arg': None})
    pre = [_assign(base + 2 + i, k['locals'][2 + i]['ty'], copy.deepcopy(a), sp) for i, a in enumerate(arg_ops)]
    entry = _mk_block(body, pre, _goto(boff, sp))
    # (the entry block was appended after computing boff: fix up)
    body['blocks'].pop()
    body['blocks'].extend(new_blocks)
    entry = _mk_block(body, pre, _goto(boff, sp))
    return entry


def _payload(recv, variant, vidx, ty='?'):
    p = copy.deepcopy(recv)
    p['p'] = list(p['p']) + [{'dc': variant, 'v': vidx}, {'f': 0, 'n': '0', 'bt': recv.get('ty', '?')}]
    p['ty'] = ty
    return p


def _agg(adt, variant, vidx, ops):
    return {'k': 'agg', 'agg': 'adt', 'adt': adt, 'variant': variant, 'vidx': vidx, 'fields': [str(i) for i in range(len(ops))], 'ops': ops}


def _expand_one(body, bodies, bi, kind, how):
    t = body['blocks'][bi]['term']
    args = t['args']
    dest = t['dest']
    target = t.get('target')
    sp = t.get('sp')
    if target is None:
        raise _NoInline('diverging')
    a0 = args[0]
    if kind == 'bool' and how == 'then_some':
        b_some = _mk_block(body, [{'k': 'assign', 'place': copy.deepcopy(dest), 'rv': _agg('std::option::Option', 'Some', 1, [copy.deepcopy(args[1])]), 'sp': sp, 'ex': []}], _goto(target, sp))
        b_none = _mk_block(body, [{'k': 'assign', 'place': copy.deepcopy(dest), 'rv': _agg('std::option::Option', 'None', 0, []), 'sp': sp, 'ex': []}], _goto(target, sp))
        body['blocks'][bi]['term'] = {'k': 'switch', 'discr': copy.deepcopy(a0), 'arms': [[0, b_none]], 'otherwise': b_some, 'sp': sp, 'ex': []}
        return
    if kind == 'bool':
        fop = args[1]
        tmp = _mk_local(body, '?')
        b_some = _mk_block(body, [{'k': 'assign', 'place': copy.deepcopy(dest), 'rv': _agg('std::option::Option', 'Some', 1, [{'k': 'move', 'place': _pl(tmp)}]), 'sp': sp, 'ex': []}], _goto(target, sp))
        b_call = _emit_call(body, bodies, fop, [], _pl(tmp), b_some, sp)
        b_none = _mk_block(body, [{'k': 'assign', 'place': copy.deepcopy(dest), 'rv': _agg('std::option::Option', 'None', 0, []), 'sp': sp, 'ex': []}], _goto(target, sp))
        body['blocks'][bi]['term'] = {'k': 'switch', 'discr': copy.deepcopy(a0), 'arms': [[0, b_none]], 'otherwise': b_call, 'sp': sp, 'ex': []}
        return
    if a0.get('k') not in ('move', 'copy'):
        raise _NoInline('receiver is a constant')
    recv = a0['place']
    if kind == 'iter':
        fop = args[1]
        it0 = _mk_local(body, recv.get('ty', '?'))
        it = _mk_local(body, recv.get('ty', '?'))
        r = _mk_local(body, '&mut ' + recv.get('ty', '?'))
        n = _mk_local(body, 'std::option::Option<?>')
        d = _mk_local(body, 'isize')
        x = _mk_local(body, '?')
        u = _mk_local(body, '()')
        b_unr = _mk_block(body, [], {'k': 'unreachable', 'sp': sp, 'ex': []})
        b_exit = _mk_block(body, [{'k': 'assign', 'place': copy.deepcopy(dest), 'rv': {'k': 'agg', 'agg': 'tuple', 'ops': []}, 'sp': sp, 'ex': []}], _goto(target, sp))
        b_head = _mk_block(body, [], {'k': 'false_unwind', 'target': None, 'sp': sp, 'ex': ['d:ForLoop']})
        b_body = _emit_call(body, bodies, fop, [{'k': 'move', 'place': _pl(x)}], _pl(u), b_head, sp)
        b_some = _mk_block(body, [_assign(x, '?', {'k': 'move', 'place': _payload(_pl(n, 'std::option::Option<?>'), 'Some', 1)}, sp)], _goto(b_body, sp))
        b_sw = _mk_block(body, [{'k': 'assign', 'place': _pl(d, 'isize'), 'rv': {'k': 'discr', 'place': _pl(n, 'std::option::Option<?>')}, 'sp': sp, 'ex': ['d:ForLoop']}],
                         {'k': 'switch', 'discr': {'k': 'move', 'place': _pl(d, 'isize')}, 'arms': [[0, b_exit], [1, b_some]], 'otherwise': b_unr, 'sp': sp, 'ex': ['d:ForLoop']})
        nextfn = {'k': 'const', 'ty': 'fn', 'fn': {'path': 'std::iter::Iterator::next', 'full': '<I as std::iter::Iterator>::next', 'local': False, 'trait': 'std::iter::Iterator', 'targs': []}}
        b_next = _mk_block(body, [{'k': 'assign', 'place': _pl(r), 'rv': {'k': 'ref', 'mut': True, 'fake': False, 'place': _pl(it)}, 'sp': sp, 'ex': ['d:ForLoop']}],
                           {'k': 'call', 'func': nextfn, 'args': [{'k': 'move', 'place': _pl(r)}], 'dest': _pl(n, 'std::option::Option<?>'), 'target': b_sw, 'unwind': None, 'sp': sp, 'ex': ['d:ForLoop']})
        body['blocks'][b_head]['term']['target'] = b_next
        b_bind = _mk_block(body, [_assign(it, recv.get('ty', '?'), {'k': 'move', 'place': _pl(it0)}, sp)], _goto(b_head, sp))
        intofn = {'k': 'const', 'ty': 'fn', 'fn': {'path': 'std::iter::IntoIterator::into_iter', 'full': '<I as std::iter::IntoIterator>::into_iter', 'local': False, 'trait': 'std::iter::IntoIterator', 'targs': []}}
        body['blocks'][bi]['term'] = {'k': 'call', 'func': intofn, 'args': [copy.deepcopy(a0)], 'dest': _pl(it0), 'target': b_bind, 'unwind': None, 'sp': sp, 'ex': ['d:ForLoop']}
        return
    some, none = ('Some', 1), ('None', 0)
    adt = 'std::option::Option'
    if kind == 'res':
        some, none = ('Ok', 0), ('Err', 1)
        adt = 'std::result::Result'
    d = _mk_local(body, 'isize')
    b_unr = _mk_block(body, [], {'k': 'unreachable', 'sp': sp, 'ex': []})
    x = _mk_local(body, '?')
    take_x = _assign(x, '?', {'k': 'move', 'place': _payload(recv, some[0], some[1])}, sp)
    if how == 'map_or':
        default, fop = args[1], args[2]
        b_s = _emit_call(body, bodies, fop, [{'k': 'move', 'place': _pl(x)}], dest, target, sp)
        b_s = _mk_block(body, [take_x], _goto(b_s, sp))
        b_n = _mk_block(body, [{'k': 'assign', 'place': copy.deepcopy(dest), 'rv': {'k': 'use', 'op': copy.deepcopy(default)}, 'sp': sp, 'ex': []}], _goto(target, sp))
    elif how == 'is_and':
        fop = args[1]
        b_s = _emit_call(body, bodies, fop, [{'k': 'move', 'place': _pl(x)}], dest, target, sp)
        b_s = _mk_block(body, [take_x], _goto(b_s, sp))
        b_n = _mk_block(body, [{'k': 'assign', 'place': copy.deepcopy(dest), 'rv': {'k': 'use', 'op': {'k': 'const', 'ty': 'bool', 'int': 0}}, 'sp': sp, 'ex': []}], _goto(target, sp))
    elif how == 'unwrap_or_else':
        fop = args[1]
        b_s = _mk_block(body, [take_x, {'k': 'assign', 'place': copy.deepcopy(dest), 'rv': {'k': 'use', 'op': {'k': 'move', 'place': _pl(x)}}, 'sp': sp, 'ex': []}], _goto(target, sp))
        if kind == 'res':
            e = _mk_local(body, '?')
            b_c = _emit_call(body, bodies, fop, [{'k': 'move', 'place': _pl(e)}], dest, target, sp)
            b_n = _mk_block(body, [_assign(e, '?', {'k': 'move', 'place': _payload(recv, 'Err', 1)}, sp)], _goto(b_c, sp))
        else:
            b_n = _emit_call(body, bodies, fop, [], dest, target, sp)
    elif how == 'filter':
        fop = args[1]
        rx = _mk_local(body, '&?')
        keep = _mk_local(body, 'bool')
        b_keep = _mk_block(body, [{'k': 'assign', 'place': copy.deepcopy(dest), 'rv': _agg(adt, 'Some', 1, [{'k': 'move', 'place': _pl(x)}]), 'sp': sp, 'ex': []}], _goto(target, sp))
        b_drop = _mk_block(body, [{'k': 'assign', 'place': copy.deepcopy(dest), 'rv': _agg(adt, 'None', 0, []), 'sp': sp, 'ex': []}], _goto(target, sp))
        b_sw2 = _mk_block(body, [], {'k': 'switch', 'discr': {'k': 'move', 'place': _pl(keep, 'bool')}, 'arms': [[0, b_drop]], 'otherwise': b_keep, 'sp': sp, 'ex': []})
        b_c = _emit_call(body, bodies, fop, [{'k': 'move', 'place': _pl(rx)}], _pl(keep, 'bool'), b_sw2, sp)
        b_s = _mk_block(body, [take_x, {'k': 'assign', 'place': _pl(rx), 'rv': {'k': 'ref', 'mut': False, 'fake': False, 'place': _pl(x)}, 'sp': sp, 'ex': []}], _goto(b_c, sp))
        b_n = _mk_block(body, [{'k': 'assign', 'place': copy.deepcopy(dest), 'rv': _agg(adt, 'None', 0, []), 'sp': sp, 'ex': []}], _goto(target, sp))
    elif how in ('map', 'and_then'):
        fop = args[1]
        if how == 'map':
            y = _mk_local(body, '?')
            b_wrap = _mk_block(body, [{'k': 'assign', 'place': copy.deepcopy(dest), 'rv': _agg(adt, some[0], some[1], [{'k': 'move', 'place': _pl(y)}]), 'sp': sp, 'ex': []}], _goto(target, sp))
            b_c = _emit_call(body, bodies, fop, [{'k': 'move', 'place': _pl(x)}], _pl(y), b_wrap, sp)
        else:
            b_c = _emit_call(body, bodies, fop, [{'k': 'move', 'place': _pl(x)}], dest, target, sp)
        b_s = _mk_block(body, [take_x], _goto(b_c, sp))
        if kind == 'opt':
            b_n = _mk_block(body, [{'k': 'assign', 'place': copy.deepcopy(dest), 'rv': _agg(adt, 'None', 0, []), 'sp': sp, 'ex': []}], _goto(target, sp))
        else:
            e = _mk_local(body, '?')
            b_n = _mk_block(body, [_assign(e, '?', {'k': 'move', 'place': _payload(recv, 'Err', 1)}, sp),
                                   {'k': 'assign', 'place': copy.deepcopy(dest), 'rv': _agg(adt, 'Err', 1, [{'k': 'move', 'place': _pl(e)}]), 'sp': sp, 'ex': []}], _goto(target, sp))
    elif how == 'map_err':
        fop = args[1]
        e = _mk_local(body, '?')
        y = _mk_local(body, '?')
        b_wrap = _mk_block(body, [{'k': 'assign', 'place': copy.deepcopy(dest), 'rv': _agg(adt, 'Err', 1, [{'k': 'move', 'place': _pl(y)}]), 'sp': sp, 'ex': []}], _goto(target, sp))
        b_c = _emit_call(body, bodies, fop, [{'k': 'move', 'place': _pl(e)}], _pl(y), b_wrap, sp)
        b_n = _mk_block(body, [_assign(e, '?', {'k': 'move', 'place': _payload(recv, 'Err', 1)}, sp)], _goto(b_c, sp))
        b_s = _mk_block(body, [take_x, {'k': 'assign', 'place': copy.deepcopy(dest), 'rv': _agg(adt, 'Ok', 0, [{'k': 'move', 'place': _pl(x)}]), 'sp': sp, 'ex': []}], _goto(target, sp))
    elif how == 'or_else':
        fop = args[1]
        b_s = _mk_block(body, [take_x, {'k': 'assign', 'place': copy.deepcopy(dest), 'rv': _agg(adt, 'Some', 1, [{'k': 'move', 'place': _pl(x)}]), 'sp': sp, 'ex': []}], _goto(target, sp))
        b_n = _emit_call(body, bodies, fop, [], dest, target, sp)
    elif how == 'ok_or_else':
        fop = args[1]
        y = _mk_local(body, '?')
        b_s = _mk_block(body, [take_x, {'k': 'assign', 'place': copy.deepcopy(dest), 'rv': _agg('std::result::Result', 'Ok', 0, [{'k': 'move', 'place': _pl(x)}]), 'sp': sp, 'ex': []}], _goto(target, sp))
        b_wrap = _mk_block(body, [{'k': 'assign', 'place': copy.deepcopy(dest), 'rv': _agg('std::result::Result', 'Err', 1, [{'k': 'move', 'place': _pl(y)}]), 'sp': sp, 'ex': []}], _goto(target, sp))
        b_n = _emit_call(body, bodies, fop, [], _pl(y), b_wrap, sp)
    else:
        raise _NoInline('combinator')
    arms = [[some[1], b_s], [none[1], b_n]]
    body['blocks'][bi]['stmts'].append({'k': 'assign', 'place': _pl(d, 'isize'), 'rv': {'k': 'discr', 'place': copy.deepcopy(recv)}, 'sp': sp, 'ex': []})
    body['blocks'][bi]['term'] = {'k': 'switch', 'discr': {'k': 'move', 'place': _pl(d, 'isize')}, 'arms': sorted(arms), 'otherwise': b_unr, 'sp': sp, 'ex': []}


def expand_combinators(j):
    notes = []
    bodies = {}
    for b in j['bodies']:
        bodies.setdefault(b['path'], b)
    for b in j['bodies']:
        if b.get('kind') not in ('fn', 'method', 'closure', 'coroutine') or not b.get('blocks'):
            continue
        bi = 0
        while bi < len(b['blocks']) and len(b['blocks']) < MAX_BLOCKS:
            t = b['blocks'][bi]['term']
            bi += 1
            if t.get('k') != 'call':
                continue
            fn = (t.get('func') or {}).get('fn')
            if not fn:
                continue
            p = fn.get('resolved') or fn.get('path')
            if fn.get('path') in ('std::ops::Fn::call', 'std::ops::FnMut::call_mut', 'std::ops::FnOnce::call_once') and fn.get('self_closure') and len(t['args']) == 2 and t.get('target') is not None:
                # `f(x)` on a closure value of this body: splice the closure in
                snapshot = (len(b['blocks']), len(b['locals']), copy.deepcopy(b['blocks'][bi - 1]))
                try:
                    tup = t['args'][1]
                    ops = None
                    if tup.get('k') in ('move', 'copy') and not tup['place']['p']:
                        ds = [st for bl2 in b['blocks'] for st in bl2['stmts'] if st['k'] == 'assign' and st['place']['l'] == tup['place']['l'] and not st['place']['p']]
                        if len(ds) == 1 and ds[0]['rv'].get('k') == 'agg' and ds[0]['rv'].get('agg') == 'tuple':
                            ops = ds[0]['rv']['ops']
                    if ops is None:
                        raise _NoInline('argument tuple')
                    entry = _emit_call(b, bodies, t['args'][0], ops, t['dest'], t['target'], t.get('sp'))
                    b['blocks'][bi - 1]['term'] = _goto(entry, t.get('sp'))
                    notes.append('expanded closure call in %s' % b['path'])
                except _NoInline as e:
                    del b['blocks'][snapshot[0]:]
                    del b['locals'][snapshot[1]:]
                    b['blocks'][bi - 1] = snapshot[2]
                    notes.append('NOT expanded closure call in %s: %s' % (b['path'], e))
                continue
            if p not in _COMB and fn.get('path') in _COMB:
                p = fn.get('path')       # a specialised impl (`<slice::IterMut as Iterator>::for_each`) of the trait method
            if p not in _COMB:
                continue
            kind, how = _COMB[p]
            snapshot = (len(b['blocks']), len(b['locals']), copy.deepcopy(b['blocks'][bi - 1]))
            try:
                _expand_one(b, bodies, bi - 1, kind, how)
                notes.append('expanded %s in %s' % (p.split('::')[-1], b['path']))
            except _NoInline as e:
                del b['blocks'][snapshot[0]:]
                del b['locals'][snapshot[1]:]
                b['blocks'][bi - 1] = snapshot[2]
                notes.append('NOT expanded %s in %s: %s' % (p.split('::')[-1], b['path'], e))
    # closures whose every use was spliced in disappear (their calls now live in the enclosing body)
    spliced = set()
    for b in j['bodies']:
        for bl in b.get('blocks') or []:
            keep = []
            for st in bl['stmts']:
                if st.get('k') == 'assign' and st.get('_cap_locals') is not None:
                    spliced.add(st['rv']['def'])
                    if not st['place']['p'] and _count_uses(b, st['place']['l']) == 0:
                        continue
                keep.append(st)
            bl['stmts'] = keep
    still = set()
    for b in j['bodies']:
        for bl in b.get('blocks') or []:
            for st in bl['stmts']:
                st.pop('_cap_locals', None)
                if st.get('k') == 'assign' and st['rv'].get('k') == 'agg' and st['rv'].get('agg') == 'closure':
                    still.add(st['rv']['def'])
    dead = spliced - still
    if dead:
        j['bodies'] = [b for b in j['bodies'] if b['path'] not in dead]
    return notes
