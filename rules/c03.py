"""C03 - searches never fabricate peers, tokens or announce targets on hostile networks (structural, all paths).

Decides: the transaction gate dominates every stream item, token record, candidate insertion, new
round and timer cancel; stream items, tokens and announce targets come only from the gated answer;
routing of an answer to the search owning the id's action prefix; announce only if requested, at
most 8, with the node's own token; the finishing routine runs on an owned search; unsolicited
answers touch nothing."""
from . import lookup, c12, common

EXPLANATION = __doc__
ASSUMPTIONS = ['HashMap::insert is last-writer-wins ("latest token")', 'HashMap::remove returns Some only for a present key', 'Iterator::take(k) yields at most k items']


def run(ctx, res):
    lookup.rule_gate(ctx, res)
    lookup.rule_items_and_tokens(ctx, res)
    lookup.rule_route(ctx, res)
    lookup.rule_outstanding(ctx, res)
    lookup.rule_announce(ctx, res, content=True)
    lookup.rule_finish_once(ctx, res)
    c12.rule_response_routing(ctx, res)
