"""C03 - searches never fabricate peers, tokens or announce targets on hostile networks (structural, all paths).

Decides: the transaction gate dominates every stream item, token record, candidate insertion, new
round and timer cancel; stream items, tokens and announce targets come only from the gated answer;
routing of an answer to the search owning the id's action prefix; announce only if requested, at
most 8, with the node's own token; the finishing routine runs on an owned search; unsolicited
answers touch nothing."""
from . import lookup, c12, common

EXPLANATION = __doc__
ASSUMPTIONS = ['HashMap::insert is last-writer-wins ("latest token")', 'HashMap::remove returns Some only for a present key', 'Iterator::take(k) yields at most k items']


def run(ctx, res):
    lookup.rule_gate(ctx, res)
    lookup.rule_items_and_tokens(ctx, res)
    lookup.rule_route(ctx, res)
    lookup.rule_outstanding(ctx, res)
    lookup.rule_announce(ctx, res, content=True)
    lookup.rule_finish_once(ctx, res)
    gate_inside = c12.rule_response_routing(ctx, res)
    # "a response whose transaction id equals that of a still-outstanding query": ids are compared as 8-byte values, so a
    # longer id must not be cut down to one (the gate in the dispatcher and the exact-length conversion)
    c12.rule_tid_gate(ctx, res, common.Dispatcher(ctx), gate_inside=bool(gate_inside))
    from . import c19
    c19.rule_prefix_extraction(ctx, res)
