"""C06 - announce tokens: bound to the requester IP, valid >= 10 min, dead by 30 min (premises + lemma).

Decides the premises P1..P6 of the hand lemma in DESIGN.md section 4/C06 on the MIR of the current
tree: the IP (not the port) is what is passed to issue and check; storing is dominated by a
successful check; the 20-byte length gate; both secrets are checked with the generators checkout
uses; the rotation decision table over elapsed intervals (0 / 1 / more) and the 600 s interval;
secrets are random and written only by the store; rotation precedes every use of a secret."""
from . import lib, common, c05
from .lib import (Sym, Table, BOOL, Lost, literal, term_int, strip_transparent, is_field_of_param, agg_variant,
                  field_chain, root_of, is_param, find_calls, fmt, dominates)

EXPLANATION = __doc__
ASSUMPTIONS = ['SHA-1 behaves as a random oracle over (ip octets || secret)', 'rand::random::<u32>() is unpredictable', 'Instant is monotone',
               'lemma C06 (DESIGN.md section 4): with P1..P6 and interval I = 600 s a token lives >= I and < 3I']

T = 'token::TokenStore::'


def is_random(t):
    t = strip_transparent(t)
    return isinstance(t, tuple) and t[0] == 'call' and t[1] == 'rand::random'


def rule_ip_binding(ctx, res, d):
    """P1: checkout / checkin receive addr.ip() of the datagram source"""
    for arm, fn in (('GetPeers', T + 'checkout'), ('AnnouncePeer', T + 'checkin')):
        paths, _ = c05.arm_paths(ctx, d, arm, res)
        n = 0
        ok = True
        for p in paths:
            for e in p.effects:
                if e[0] == 'call' and e[1] == fn:
                    n += 1
                    a = strip_transparent(e[2][1])
                    if not (a[0] == 'call' and a[1] == 'std::net::SocketAddr::ip' and is_param(strip_transparent(a[2][0]), 'addr')):
                        ok = False
                    if not (is_param(root_of(strip_transparent(e[2][0])), 'self') and field_chain(strip_transparent(e[2][0])) == ['token_store']):
                        ok = False
        res.check(ok and n >= 1, 'FLOW', 'handle_incoming/' + arm, '%s receives the IP of the datagram source (addr.ip(): any port) on the node\'s token store' % lib.short(fn), key='ip-binding:' + arm)
    for fn in (T + 'checkout', T + 'checkin'):
        sites = ctx.calls_to(fn)
        res.sites += len(sites)
        res.check(len(sites) == 1 and sites[0].body.path == d.body.path, 'WHO', fn, 'single call site, in the dispatcher', detail='%s' % sites)
    # the token checked is the announced token, converted through Token::new (20 bytes)
    paths, _ = c05.arm_paths(ctx, d, 'AnnouncePeer', res)
    ok = True
    n = 0
    for p in paths:
        for e in p.effects:
            if e[0] == 'call' and e[1] == T + 'checkin':
                n += 1
                t = strip_transparent(e[2][2])
                tn = find_calls(t, 'token::Token::new')
                if not (tn and field_chain(strip_transparent(tn[0][2][0]))[-1:] == ['token'] and is_param(root_of(strip_transparent(tn[0][2][0])), 'message')):
                    ok = False
    res.check(ok and n >= 1, 'FLOW', 'handle_incoming/AnnouncePeer', 'the token checked is Token::new(announced token)')
    adt = ctx.f.adts.get('token::Token')
    fty = adt['variants'][0]['fields'][0].get('ty_norm') if adt else None
    tb = ctx.body('token::Token::new')
    res.touch(tb)
    ts = Sym(tb)
    ts.run()
    oks = [p for p in ts.complete_paths() if agg_variant(p.ret) == 'Ok']
    okn = fty == '[u8; 20]' and len(oks) >= 1 and all(find_calls(p.ret, 'try_into') for p in oks)
    res.check(okn, 'TYPE', 'token::Token', 'Token::new is a fallible conversion into [u8; 20]: other lengths are refused (then 203, see the error-code table)', detail=str(fty))


def rule_rotation_first(ctx, res):
    """P3: refresh_check is called before any secret is read in checkout / checkin"""
    for fn in ('checkout', 'checkin'):
        b = ctx.body(T + fn)
        res.touch(b)
        calls = ctx.calls_in(b, T + 'refresh_check')
        ok = len(calls) == 1
        if ok:
            after = calls[0].term['target']
            for i, blk in enumerate(b.blocks):
                if blk['cleanup']:
                    continue
                for st in blk['stmts']:
                    if st['k'] != 'assign':
                        continue
                    rv = st['rv']
                    places = []
                    if rv['k'] == 'use' and rv['op']['k'] in ('copy', 'move'):
                        places.append(rv['op']['place'])
                    if rv['k'] in ('ref', 'copy_for_deref'):
                        places.append(rv['place'])
                    for pl in places:
                        if any(isinstance(e, dict) and e.get('n') in ('curr_secret', 'last_secret', 'last_refresh') for e in pl['p']):
                            if not dominates(b, after, i):
                                ok = False
            # and the worker (generate / validate) comes after it too
            for st in ctx.calls_in(b, rx=r'^token::(generate|validate)_token_from_addr$'):
                if not dominates(b, after, st.block):
                    ok = False
        res.check(ok, 'MPT', T + fn, 'lazy rotation (refresh_check) runs before any secret is read or used', site=b.span)
    # checkout uses the current secret; checkin checks current and previous
    b = ctx.body(T + 'checkout')
    s = Sym(b)
    s.run()
    ok = all(p.ret[0] == 'call' and p.ret[1] == 'token::generate_token_from_addr' and is_param(strip_transparent(p.ret[2][0]), 'addr')
             and is_field_of_param(p.ret[2][1], 'self', 'curr_secret') for p in s.complete_paths()) and s.complete_paths()
    res.check(ok, 'FLOW', T + 'checkout', 'a token is generated from (requester IP, current secret)')
    b = ctx.body(T + 'checkin')
    s = Sym(b)
    s.run()
    ok = all(p.ret[0] == 'call' and p.ret[1] == 'token::validate_token_from_addr' and is_param(strip_transparent(p.ret[2][0]), 'addr') and is_param(strip_transparent(p.ret[2][1]), 'token')
             and {tuple(field_chain(strip_transparent(p.ret[2][2]))), tuple(field_chain(strip_transparent(p.ret[2][3])))} == {('curr_secret',), ('last_secret',)}
             for p in s.complete_paths()) and s.complete_paths()
    res.check(ok, 'FLOW', T + 'checkin', 'a token is validated against (requester IP, current secret, previous secret)')


def rule_rotation_table(ctx, res):
    """P4: refresh_check over k = intervals_passed(last_refresh)"""
    b = ctx.body(T + 'refresh_check')
    res.touch(b)
    s = Sym(b)
    s.run()
    res.paths += len(s.paths)

    def classify(lit, c):
        rel, a, b2, truth = lit
        if rel == 'int' and a[0] == 'call' and a[1] == 'token::intervals_passed' and is_field_of_param(a[2][0], 'self', 'last_refresh'):
            if isinstance(b2, tuple) and b2[0] == 'not':
                return ('k', {x for x in (0, 1, 'more') if x not in b2[1]})
            return ('k', {b2} if b2 in (0, 1) else {'other:%s' % b2})
        # the same question asked with == / < instead of a match on the number
        def subject(t):
            t = strip_transparent(t)
            return isinstance(t, tuple) and t[0] == 'call' and t[1] == 'token::intervals_passed' and is_field_of_param(t[2][0], 'self', 'last_refresh')
        dom = (0, 1, 'more')
        if rel == 'eq' and truth is not None:
            for x, y in ((a, b2), (b2, a)):
                cst = lib.term_int(y) if isinstance(y, tuple) else None
                if subject(x) and cst is not None:
                    hit = {cst} if cst in (0, 1) else {'more'} if truth is False else None
                    if hit is None:
                        raise Lost('refresh_check: equality with %s' % cst)
                    return ('k', hit if truth else {v for v in dom if v not in hit})
        if rel == 'lt' and truth is not None:
            ca, cb = (lib.term_int(a) if isinstance(a, tuple) else None), (lib.term_int(b2) if isinstance(b2, tuple) else None)
            if subject(a) and cb is not None and cb <= 2:          # k < c
                less = {v for v in (0, 1) if v < cb}
                return ('k', less if truth else {v for v in dom if v not in less})
            if subject(b2) and ca is not None and ca <= 1:         # c < k
                more = {v for v in (0, 1) if v > ca} | {'more'}
                return ('k', more if truth else {v for v in dom if v not in more})
        raise Lost('refresh_check: unrecognised condition %s %s' % (rel, fmt(a)))

    def outcome(p):
        out = {}
        for e in lib.writes_of(p):
            fc = field_chain(e[1])
            if not is_param(root_of(e[1]), 'self') or len(fc) != 1:
                out['?'] = fmt(e[1])
                continue
            v = strip_transparent(e[2])
            if is_random(v):
                out[fc[0]] = 'random'
            elif v[0] == 'call' and v[1] == 'time::Instant::now':
                out[fc[0]] = 'now'
            elif is_field_of_param(v, 'self', 'curr_secret'):
                out[fc[0]] = 'curr'
            else:
                out[fc[0]] = fmt(v)
        # order matters for k = 1: last := curr must read the old current secret
        ws = [field_chain(e[1])[0] for e in lib.writes_of(p) if field_chain(e[1])]
        if out.get('last_secret') == 'curr' and ws.index('last_secret') > ws.index('curr_secret'):
            out['order'] = 'curr overwritten before it is saved'
        return tuple(sorted(out.items()))

    tab = Table.build(s.complete_paths(), classify, outcome)

    def expected(v):
        k = v['k']
        if k == 0:
            return ()
        if k == 1:
            return tuple(sorted({'last_secret': 'curr', 'curr_secret': 'random', 'last_refresh': 'now'}.items()))
        return tuple(sorted({'last_secret': 'random', 'curr_secret': 'random', 'last_refresh': 'now'}.items()))

    bad, n = tab.compare({'k': [0, 1, 'more']}, expected)
    res.check(not bad, 'TABLE', T + 'refresh_check', 'rotation table: 0 intervals -> nothing; 1 -> last := curr, curr := random, stamp := now; more -> both random, stamp := now',
              site=b.span, detail='; '.join('%s -> got %s want %s' % x for x in bad[:4]))
    # intervals_passed = (now - last_refresh).as_secs() / REFRESH_INTERVAL.as_secs()
    ib = ctx.body('token::intervals_passed')
    res.touch(ib)
    isym = Sym(ib)
    isym.run()
    ok = False
    for p in isym.complete_paths():
        r = p.ret
        if r[0] == 'bin' and r[1] == 'Div':
            num, den = strip_transparent(r[2]), strip_transparent(r[3])
            okn = (num[0] == 'call' and num[1].endswith('Duration::as_secs') and find_calls(num, '::sub') and
                   strip_transparent(find_calls(num, '::sub')[0][2][0])[0] == 'call' and strip_transparent(find_calls(num, '::sub')[0][2][0])[1] == 'time::Instant::now'
                   and is_param(strip_transparent(find_calls(num, '::sub')[0][2][1]), 'last_refresh'))
            okd = den[0] == 'call' and den[1].endswith('Duration::as_secs') and strip_transparent(den[2][0]) == ('named', 'token::REFRESH_INTERVAL')
            ok = okn and okd
    res.check(ok, 'TABLE', 'token::intervals_passed', 'k = whole seconds since the last rotation / whole seconds of REFRESH_INTERVAL')
    ms = ctx.f.duration_ms('token::REFRESH_INTERVAL')
    res.check(ms == 600000, 'CONST', 'token::REFRESH_INTERVAL', 'REFRESH_INTERVAL == 600 s', detail=str(ms))


def rule_validation(ctx, res):
    """P5: validation compares against tokens generated from both secrets by the generators checkout uses"""
    ipv = {'V4': 0, 'V6': 1}
    b = ctx.body('token::validate_token_from_addr')
    res.touch(b)
    s = Sym(b)
    s.run()

    def classify(lit, c):
        rel, a, b2, truth = lit
        if rel == 'variant' and is_param(a, 'addr'):
            return ('fam', {'V4'} if b2 == 0 else {'V6'} if b2 == 1 else set())
        if rel == 'bool' and a[0] == 'call' and a[1].startswith('token::validate_token_from_addr_v'):
            fam = a[1][-2:].upper()
            sec = strip_transparent(a[2][2])
            if not (is_param(strip_transparent(a[2][1]), 'token') and field_chain(strip_transparent(a[2][0])) == ['0']):
                raise Lost('validate: odd arguments')
            return ('%s_%s' % (fam, sec[2]), truth)
        raise Lost('validate_token_from_addr: unrecognised condition')

    # accepted form B: `[secret_one, secret_two].iter().any(|s| generate_token_from_addr(addr, *s) == token)` - the same
    # disjunction written over the generator that checkout uses (family dispatch then happens inside the generator)
    cps = s.complete_paths()
    form_b = False
    if len(cps) == 1 and not cps[0].conds and cps[0].ret[0] == 'call' and cps[0].ret[1].split('::')[-1] == 'any':
        anyc = cps[0].ret
        src = strip_transparent(anyc[2][0])
        while isinstance(src, tuple) and src[0] == 'call' and src[1].split('::')[-1] in ('iter', 'into_iter', 'copied'):
            src = strip_transparent(src[2][0])
        elems = []
        while isinstance(src, tuple) and src[0] in ('cast', 'ref', 'deref'):
            src = strip_transparent(src[1])
        if isinstance(src, tuple) and src[0] == 'array':
            elems = [strip_transparent(v) for v in src[1]]
        okb = sorted(e[2] for e in elems if is_param(e)) == ['secret_one', 'secret_two'] and len(elems) == 2
        cl = anyc[2][1]
        if okb and isinstance(cl, tuple) and cl[0] == 'closure':
            kb = ctx.body(cl[1])
            res.touch(kb)
            ks = Sym(kb)
            ks.run()
            kc = ks.complete_paths()
            okb = False
            if len(kc) == 1 and not kc[0].conds:
                r = strip_transparent(kc[0].ret)
                if r[0] == 'call' and lib.cmp_kind_of_call(r[1]) == 'eq':
                    x, y = strip_transparent(r[2][0]), strip_transparent(r[2][1])
                    for g, tk in ((x, y), (y, x)):
                        if g[0] == 'call' and g[1] == 'token::generate_token_from_addr':
                            ga, gs_ = strip_transparent(g[2][0]), strip_transparent(g[2][1])
                            caps = [strip_transparent(c) for c in cl[2]]
                            def cap_of(t):
                                ch = field_chain(t)
                                return caps[kb.upvars.index(ch[0])] if ch and ch[0] in kb.upvars and is_param(root_of(t)) and root_of(t)[1] == 1 else None
                            okb = (is_param(strip_transparent(cap_of(ga)) if cap_of(ga) is not None else ('x',), 'addr') and is_param(strip_transparent(cap_of(tk)) if cap_of(tk) is not None else ('x',), 'token')
                                   and is_param(root_of(gs_)) and root_of(gs_)[1] == 2)
        else:
            okb = False
        res.check(okb, 'TABLE', b.path, 'valid <=> matches under the first secret or under the second secret, for the address family of the requester',
                  detail='form B (any over both secrets against the generator)')
        tab = None
        form_b = okb
    else:
        tab = lib.bool_table(cps, classify)
    dom = {'fam': ['V4', 'V6'], 'V4_secret_one': BOOL, 'V4_secret_two': BOOL, 'V6_secret_one': BOOL, 'V6_secret_two': BOOL}
    if tab is not None:
        bad, n = tab.compare(dom, lambda v: v['%s_secret_one' % v['fam']] or v['%s_secret_two' % v['fam']])
        res.check(not bad, 'TABLE', b.path, 'valid <=> matches under the first secret or under the second secret, for the address family of the requester',
                  detail='; '.join('%s -> got %s want %s' % x for x in bad[:3]))
    gb = ctx.body('token::generate_token_from_addr')
    res.touch(gb)
    gs = Sym(gb)
    gs.run()
    okg = True
    fams = set()
    for p in gs.complete_paths():
        r = p.ret
        if not (r[0] == 'call' and r[1].startswith('token::generate_token_from_addr_v') and is_param(strip_transparent(r[2][1]), 'secret') and is_param(root_of(strip_transparent(r[2][0])), 'addr')):
            okg = False
            continue
        fam = None
        for c in p.conds:
            rel, a, b2, truth = literal(c)
            if rel == 'variant' and is_param(a, 'addr'):
                fam = b2
        fams.add((fam, r[1][-2:]))
    res.check(okg and fams == {(0, 'v4'), (1, 'v6')}, 'TABLE', gb.path, 'generation dispatches V4 -> v4 generator, V6 -> v6 generator with the given secret', detail=str(fams))
    for fam, octets, ln in (('v4', 'Ipv4Addr::octets', 8), ('v6', 'Ipv6Addr::octets', 20)):
        if form_b and ctx.f.body('token::validate_token_from_addr_' + fam) is None:
            vb = None      # form B compares against generate_token_from_addr itself: no per-family validator exists
        else:
            vb = ctx.body('token::validate_token_from_addr_' + fam)
        if vb is not None:
            res.touch(vb)
            vs = Sym(vb)
            vs.run()
            okv = False
            for p in vs.complete_paths():
                r = p.ret
                if r[0] == 'call' and lib.cmp_kind_of_call(r[1]) == 'eq':
                    x, y = strip_transparent(r[2][0]), strip_transparent(r[2][1])
                    for g, t in ((x, y), (y, x)):
                        if g[0] == 'call' and g[1] == 'token::generate_token_from_addr_' + fam and is_param(t, 'token') and is_param(strip_transparent(g[2][1]), 'secret'):
                            okv = True
            res.check(okv, 'TABLE', vb.path, 'a token matches iff it equals the token the %s generator yields for (address, secret): same generator as issuing (sibling agreement)' % fam)
        g = ctx.body('token::generate_token_from_addr_' + fam)
        res.touch(g)
        gsym = Sym(g)
        gsym.run()
        okh = False
        okw = False
        # any fixed byte order binds the whole secret (the token only has to be a function of all of (ip, secret))
        secret_bytes = lambda t: [c for n in ('to_be_bytes', 'to_le_bytes', 'to_ne_bytes') for c in find_calls(t, n)]
        # every way out of the generator is that hash: no shortcut that derives the token from something else (say, from a
        # canonicalised form of the address, which would make two different addresses share their tokens)
        other_exits = [p for p in gsym.paths if p.end == 'return' and not find_calls(p.ret, 'InfoHash::sha1')]
        conds_on_addr = [c for p in gsym.paths for c in p.conds if not (literal(c)[0] == 'variant' and isinstance(literal(c)[1], tuple) and literal(c)[1][0] == 'call' and literal(c)[1][1].split('::')[-1] == 'next')]
        res.check(not other_exits and not conds_on_addr, 'FLOW', g.path, 'the generator has one way out, the SHA-1 of the filled buffer: it does not branch on the address or the secret',
                  detail='%d other exits, %d conditions' % (len(other_exits), len(conds_on_addr)), key='single-exit:' + fam)
        for p in gsym.paths:
            if p.end == 'return':
                sh = find_calls(p.ret, 'InfoHash::sha1')
                zips = [e for e in p.effects if e[0] == 'call' and e[1] and e[1].endswith('Iterator::zip')]
                if sh and zips:
                    buf = strip_transparent(sh[0][2][0])
                    z = zips[0]
                    dst = strip_transparent(z[2][0])
                    dstbuf = strip_transparent(dst[2][0]) if dst[0] == 'call' and dst[1].endswith('iter_mut') else None
                    ch = strip_transparent(z[2][1])
                    srcs = fmt(ch)
                    okh = (dstbuf == buf and ch[0] == 'call' and ch[1].endswith('Iterator::chain') and find_calls(ch, octets.split('::')[-1]) and secret_bytes(ch)
                           and is_param(strip_transparent(secret_bytes(ch)[0][2][0]), 'secret'))
                    if buf[0] == 'repeat' and str(buf[2]).strip() not in (str(ln), '%d_usize' % ln):
                        pass
                sps = [e for e in p.effects if e[0] == 'call' and e[1] and e[1].split('::')[-1] in ('split_at_mut',)]
                cfs = [e for e in p.effects if e[0] == 'call' and e[1] and e[1].split('::')[-1] == 'copy_from_slice']
                if sh and not zips and len(sps) == 1 and len(cfs) == 2:
                    # form B: `let (a, s) = buffer.split_at_mut(octets.len()); a.copy_from_slice(&octets); s.copy_from_slice(&secret.to_be_bytes())`
                    # (the halves of a split cover the buffer; that both copies fit exactly is the copy_from_slice panic obligation of C14/C15)
                    from . import ranges
                    sp = sps[0]
                    order = [e for e in p.effects if e[0] == 'call']
                    pos = {id(e): i for i, e in enumerate(order)}
                    shc = [e for e in order if e[1] == sh[0][1] and e[3] == sh[0][3]]
                    def mir_root(e):
                        t = g.blocks[e[3]]['term']
                        return ranges._root_place(g, t['args'][0]) if t.get('k') == 'call' and t.get('args') else None
                    same_buf = bool(shc) and mir_root(shc[0]) is not None and ranges._same_place(mir_root(shc[0]), mir_root(sp)) and not mir_root(sp)['p']
                    def part_of(e):
                        d = strip_transparent(e[2][0])
                        return d[2] if isinstance(d, tuple) and len(d) == 3 and d[0] == 'field' and d[1][:2] == sp[:2] and d[1][3] == sp[3] else None
                    def is_octets(t):
                        t = strip_transparent(t)
                        return isinstance(t, tuple) and t[0] == 'call' and t[1].endswith(octets) and is_param(strip_transparent(t[2][0])) and strip_transparent(t[2][0])[1] == 1
                    def is_secret(t):
                        t = strip_transparent(t)
                        return isinstance(t, tuple) and t[0] == 'call' and t[1].split('::')[-1] in ('to_be_bytes', 'to_le_bytes', 'to_ne_bytes') and is_param(strip_transparent(t[2][0]), 'secret')
                    mid = strip_transparent(sp[2][1])
                    mid_ok = (isinstance(mid, tuple) and mid[0] == 'call' and mid[1].split('::')[-1] == 'len' and is_octets(mid[2][0])) or term_int(mid) == ln - 4
                    srcs = {part_of(e): e[2][1] for e in cfs}
                    if same_buf and mid_ok and set(srcs) == {'0', '1'} and is_octets(srcs['0']) and is_secret(srcs['1']) \
                            and shc and all(pos[id(e)] < pos[id(shc[0])] for e in cfs):
                        okh = okw = True
                if sh and not zips and not sps and len(cfs) == 2:
                    # form C: `buffer[..n].copy_from_slice(&octets); buffer[n..].copy_from_slice(&secret.to_be_bytes())` with n = octets.len():
                    # the two half-open views meet at n and so cover the buffer (that each copy fits exactly is the panic obligation of C14/C15)
                    def unmut(t):
                        t = strip_transparent(t)
                        while isinstance(t, tuple) and t[0] == 'mutated':
                            t = strip_transparent(t[1])
                        return t
                    def is_octets_c(t):
                        t = strip_transparent(t)
                        return isinstance(t, tuple) and t[0] == 'call' and t[1].endswith(octets) and is_param(strip_transparent(t[2][0])) and strip_transparent(t[2][0])[1] == 1
                    def is_secret_c(t):
                        t = strip_transparent(t)
                        return isinstance(t, tuple) and t[0] == 'call' and t[1].split('::')[-1] in ('to_be_bytes', 'to_le_bytes', 'to_ne_bytes') and is_param(strip_transparent(t[2][0]), 'secret')
                    def is_mid(t):
                        t = strip_transparent(t)
                        return (isinstance(t, tuple) and t[0] == 'call' and t[1].split('::')[-1] == 'len' and is_octets_c(t[2][0])) or term_int(t) == ln - 4
                    buf = unmut(sh[0][2][0])
                    views = {}
                    for e in cfs:
                        d = strip_transparent(e[2][0])
                        if not (isinstance(d, tuple) and d[0] == 'call' and d[1].split('::')[-1] == 'index_mut' and unmut(d[2][0]) == buf and buf[0] == 'repeat'):
                            continue
                        r = strip_transparent(d[2][1])
                        if isinstance(r, tuple) and r[0] == 'agg' and r[1].startswith('std::ops::Range'):
                            fs = dict(r[2]) if not isinstance(r[2], dict) else r[2]
                            if r[1].startswith('std::ops::RangeTo::') and set(fs) == {'end'} and is_mid(fs['end']):
                                views['head'] = e[2][1]
                            if r[1].startswith('std::ops::RangeFrom::') and set(fs) == {'start'} and is_mid(fs['start']):
                                views['tail'] = e[2][1]
                    order = [e for e in p.effects if e[0] == 'call']
                    pos = {id(e): i for i, e in enumerate(order)}
                    shc = [e for e in order if e[1] == sh[0][1] and e[3] == sh[0][3]]
                    if set(views) == {'head', 'tail'} and is_octets_c(views['head']) and is_secret_c(views['tail']) \
                            and shc and all(pos[id(e)] < pos[id(shc[0])] for e in cfs):
                        okh = okw = True
            if p.end == 'loop':
                for e in lib.writes_of(p):
                    if field_chain(e[1])[-1:] == ['0'] and field_chain(e[2])[-1:] == ['1']:
                        okw = True
        res.check(okh and okw, 'FLOW', g.path, 'token = SHA-1 over a buffer filled with (address octets || all secret bytes)')
    c4 = ctx.f.const_value('token::IPV4_SECRET_BUFFER_LEN')
    c6 = ctx.f.const_value('token::IPV6_SECRET_BUFFER_LEN')
    res.check(c4 == 8 and c6 == 20, 'CONST', 'token::IPV*_SECRET_BUFFER_LEN', 'hash buffers hold all address octets and all 4 secret bytes (8 / 20): the zip does not truncate the secret', detail='%s %s' % (c4, c6))


def rule_secrecy(ctx, res):
    """P6: who writes the secrets, and with what"""
    for f in ('curr_secret', 'last_secret', 'last_refresh'):
        ws = ctx.field_writes(r'^token::TokenStore$', f)
        writers = {b.path for b, _, _ in ws}
        res.sites += len(ws)
        res.check(writers <= {T + 'refresh_check'} and ws, 'WHO', 'token::TokenStore.' + f, 'written only by refresh_check (and the constructor)', detail=str(sorted(writers)), key='writers:' + f)
        mb = ctx.mut_borrows_of_field(r'^token::TokenStore$', f)
        res.check(not mb, 'WHO', 'token::TokenStore.' + f, 'no &mut to the field escapes', key='mutborrow:' + f)
    aggs = [x for x in ctx.aggregates(adt='token::TokenStore') if not ctx.is_derived(x[0].path)]
    res.check({x[0].path for x in aggs} == {T + 'new'}, 'WHO', 'token::TokenStore', 'stores are built only by TokenStore::new', detail=str([x[0].path for x in aggs]))
    b = ctx.body(T + 'new')
    res.touch(b)
    s = Sym(b)
    s.run()
    ok = bool(s.complete_paths())
    for p in s.complete_paths():
        r = p.ret
        ok = ok and r[0] == 'agg' and is_random(r[2].get('curr_secret')) and is_random(r[2].get('last_secret')) and r[2].get('curr_secret') != r[2].get('last_secret') \
            and strip_transparent(r[2].get('last_refresh'))[1] == 'time::Instant::now'
    res.check(ok, 'FLOW', T + 'new', 'a new store starts with two independent random secrets and stamp = now (tokens of a previous run are unknown)')
    # the node's store is created once and never replaced
    ws = ctx.field_writes(r'^handler::DhtHandler$', 'token_store')
    res.check(not ws, 'WHO', 'handler::DhtHandler.token_store', 'the token store is never replaced', detail=str([x[0].path for x in ws]))


def run(ctx, res):
    common.rule_no_addr_canonicalisation(ctx, res)
    d = common.Dispatcher(ctx)
    res.touch(d.body)
    common.rule_closed_world(ctx, res)
    rule_ip_binding(ctx, res, d)
    c05.rule_error_codes(ctx, res, d)   # P2: storing only after a successful check; bad token -> 203, nothing stored
    rule_rotation_first(ctx, res)
    rule_rotation_table(ctx, res)
    rule_validation(ctx, res)
    rule_secrecy(ctx, res)
