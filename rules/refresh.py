"""Rules about the periodic table refresh (action/refresh.rs and its entry points in handler.rs), shared by C11 and C18."""
from . import lib, common
from .lib import (Sym, Table, BOOL, Lost, literal, term_int, strip_transparent, is_field_of_param, option_is_some,
                  agg_variant, field_chain, root_of, is_param, find_calls, fmt, only_via_edge, must_pass, dominates)
from .c05 import pipeline, message_of_send, body_of_message
from .c10 import status_atom, STATUS
from .lookup import sym_of, coverage_gap, is_generate

CONT = 'action::refresh::TableRefresh::continue_refresh'


def closure_bool_ret(ctx, res, cl):
    b = ctx.body(cl[1])
    res.touch(b)
    s = Sym(b)
    s.run()
    return b, s.complete_paths()


def arm_effects(ctx, res):
    """(path, schedule effect) for every scheduling of a TableRefresh token in continue_refresh"""
    b, s = sym_of(ctx, res, CONT)
    out = []
    for p in s.paths:
        for e in p.effects:
            if e[0] == 'call' and e[1] and e[1].endswith('Timer::<T>::schedule_in') and agg_variant(e[2][2]) == 'TableRefresh':
                out.append((p, e))
    return b, s, out


def rule_single_chain(ctx, res):
    """C18: at most one pending refresh token"""
    b, s, arms = arm_effects(ctx, res)
    gap = coverage_gap(b, s)
    res.check(not gap, 'COVER', b.path, 'path enumeration visited every reachable block', detail='unvisited: %s' % gap[:8])
    aggs = [x for x in ctx.aggregates(adt='action::ScheduledTaskCheck', variant='TableRefresh') if not ctx.is_derived(x[0].path)]
    res.sites += len(aggs)
    res.check(len(aggs) == 1 and aggs[0][0].path == b.path, 'WHO', 'action::ScheduledTaskCheck::TableRefresh', 'the refresh token is constructed at exactly one site (continue_refresh)',
              detail=str([(x[0].path, x[2]['sp']) for x in aggs]))
    blocks = {e[3] for _, e in arms}
    res.check(len(blocks) == 1, 'WHO', b.path, 'exactly one schedule_in(.., TableRefresh) site', detail=str(blocks))
    ok = bool(arms)
    why = ''
    for p, e in arms:
        # (b) the previously stored token was taken out of the field and cancelled (or there was none)
        taken = None
        for c in p.conds:
            rel, a, b2, truth = literal(c)
            if rel == 'variant' and a[0] == 'call' and (a[1].endswith('Option::<T>::take') or a[1].endswith('mem::take') or a[1].endswith('mem::replace')) \
                    and is_field_of_param(a[2][0], 'self', 'next_refresh'):
                taken = (option_is_some(b2), a)
        if taken is None:
            ok = False
            why = 'the arm site is reachable without inspecting the stored token (next_refresh.take())'
            continue
        idx = p.effects.index(e)
        if taken[0]:
            canc = [x for x in p.effects[:idx] if x[0] == 'call' and x[1] and x[1].endswith('Timer::<T>::cancel')]
            good = False
            for x in canc:
                arg = strip_transparent(x[2][1])
                if find_calls(arg, '::take') and field_chain(arg)[-1:] == ['0'] and is_param(strip_transparent(x[2][0]), 'timer'):
                    good = True
            if not good:
                ok = False
                why = 'a stored token exists but is not cancelled before re-arming'
        # (c) the new token is stored
        stored = [x for x in p.effects[idx:] if x[0] == 'write' and is_field_of_param(x[1], 'self', 'next_refresh') and agg_variant(x[2]) == 'Some'
                  and strip_transparent(x[2][2].get('0'))[:2] == ('call', e[1])]
        if not stored and p.end == 'return':
            ok = False
            why = 'the new token is not stored into next_refresh'
        if not is_param(strip_transparent(e[2][0]), 'timer'):
            ok = False
    res.check(ok, 'PAIR', b.path, 'before arming: the stored token is taken and cancelled (or none was stored); after arming: the new token is stored', site=b.span, detail=why, key='pair')
    # (d) no other writer / borrower of the field
    ws = ctx.field_writes(r'^action::refresh::TableRefresh$', 'next_refresh')
    mb = ctx.mut_borrows_of_field(r'^action::refresh::TableRefresh$', 'next_refresh')
    writers = {x[0].path for x in ws} | {x[0].path for x in mb}
    res.check(writers <= {b.path} and ws, 'WHO', 'action::refresh::TableRefresh.next_refresh', 'the stored token is touched only by continue_refresh', detail=str(sorted(writers)))
    # entries: timer fired / bootstrap completed
    sites = ctx.calls_to(CONT)
    res.check({x.body.path for x in sites} == {'handler::DhtHandler::handle_check_table_refresh::{closure#0}'}, 'WHO', CONT, 'continue_refresh is entered only through handle_check_table_refresh', detail=str(sites))
    s2 = ctx.calls_to('handler::DhtHandler::handle_check_table_refresh')
    exp = {'handler::DhtHandler::handle_timeout::{closure#0}', 'handler::DhtHandler::handle_bootstrap_success::{closure#0}'}
    res.check({x.body.path for x in s2} == exp and len(s2) == 2, 'WHO', 'handler::DhtHandler::handle_check_table_refresh', 'two entries: the refresh timer fired, a bootstrap completed', detail=str(s2))
    # "once per bootstrap completion": the completion handler itself has one caller, the state-change branch of the event loop
    # (that it runs there iff the state is Bootstrapped is C15's table); a bootstrapped() query or anything else must not reach it
    s3 = ctx.calls_to('handler::DhtHandler::handle_bootstrap_success')
    res.check(len(s3) == 1 and s3[0].body.path == 'handler::DhtHandler::run_once::{closure#0}', 'WHO', 'handler::DhtHandler::handle_bootstrap_success',
              'the completion handler (which starts a refresh round) is entered only from the event loop\'s state-change branch', detail=str(s3), key='completion-entry')
    s4 = ctx.calls_to('handler::DhtHandler::handle_timeout')
    res.check(len(s4) == 1 and s4[0].body.path == 'handler::DhtHandler::run_once::{closure#0}', 'WHO', 'handler::DhtHandler::handle_timeout',
              'the timer handler is entered only from the event loop\'s timer branch', detail=str(s4), key='timeout-entry')
    # the refresh object is the handler's single TableRefresh and shares the handler's timer
    hb = ctx.co('handler::DhtHandler::handle_check_table_refresh')
    hs = Sym(hb)
    hs.run()
    okh = True
    for p in hs.paths:
        for e in p.effects:
            if e[0] == 'call' and e[1] == CONT:
                if not (is_field_of_param(e[2][0], 'self', 'refresh') and is_field_of_param(e[2][2], 'self', 'timer')):
                    okh = False
    res.check(okh, 'FLOW', hb.path, 'continue_refresh runs on self.refresh with self.timer')
    ws = ctx.field_writes(r'^handler::DhtHandler$', 'refresh') + ctx.field_writes(r'^handler::DhtHandler$', 'timer')
    res.check(not ws, 'WHO', 'handler::DhtHandler.refresh/timer', 'the refresh object and the timer are never replaced', detail=str([x[0].path for x in ws]))
    ms = ctx.f.duration_ms('action::refresh::REFRESH_INTERVAL_TIMEOUT')
    res.check(ms == 6000, 'CONST', 'action::refresh::REFRESH_INTERVAL_TIMEOUT', 'refresh interval == 6 s', detail=str(ms))


def rule_rearm_always(ctx, res):
    """C11: every path through continue_refresh re-arms the timer with the 6 s interval"""
    b, s, arms = arm_effects(ctx, res)
    blocks = {e[3] for _, e in arms}
    ok = bool(blocks) and must_pass(b, 0, blocks)
    okc = all(strip_transparent(e[2][1]) == ('named', 'action::refresh::REFRESH_INTERVAL_TIMEOUT') for _, e in arms)
    res.check(ok and okc, 'MPT', b.path, 'every path through a refresh round (including send errors) schedules the next TableRefresh after REFRESH_INTERVAL_TIMEOUT', site=b.span)
    ms = ctx.f.duration_ms('action::refresh::REFRESH_INTERVAL_TIMEOUT')
    res.check(ms == 6000, 'CONST', 'action::refresh::REFRESH_INTERVAL_TIMEOUT', 'refresh interval == 6 s', detail=str(ms))
    # started on bootstrap completion, continued by its own timer
    hb = ctx.co('handler::DhtHandler::handle_bootstrap_success')
    res.touch(hb)
    sites = ctx.calls_in(hb, 'handler::DhtHandler::handle_check_table_refresh')
    res.check(len(sites) == 1 and must_pass(hb, 0, {sites[0].block}), 'MPT', hb.path, 'bootstrap completion always starts a refresh round')
    from .lookup import rule_completion_handled
    tb = ctx.co('handler::DhtHandler::handle_timeout')
    ts = Sym(tb)
    ts.run()
    tv = common.enum_variants(ctx, 'action::ScheduledTaskCheck')
    okt = False
    for p in ts.complete_paths():
        var = None
        for c in p.conds:
            rel, a, b2, truth = literal(c)
            if rel == 'variant' and is_param(a, 'token'):
                var = b2
        if var == tv['TableRefresh']:
            okt = any(e[0] == 'call' and e[1] == 'handler::DhtHandler::handle_check_table_refresh' for e in p.effects)
    res.check(okt, 'TABLE', tb.path, 'the TableRefresh timer token leads to the next refresh round')


def _strip_refs(t):
    t = strip_transparent(t)
    while isinstance(t, tuple) and t and t[0] in ('ref', 'deref'):
        t = strip_transparent(t[1])
    return t


def rule_refresh_round(ctx, res):
    """C11: whom a round contacts and that each contacted node is marked"""
    b, s = sym_of(ctx, res, CONT)
    k = ctx.f.const_value('action::refresh::REFRESH_CONCURRENCY')
    res.check(k == 4, 'CONST', 'action::refresh::REFRESH_CONCURRENCY', 'REFRESH_CONCURRENCY == 4', detail=str(k))
    # candidate pipeline
    pls = set()
    for p in s.paths:
        for e in p.effects:
            if e[0] == 'call' and e[1] and e[1].endswith('Iterator::collect') and find_calls(e[2][0], 'closest_nodes'):
                pl = pipeline(('call', e[1], e[2], e[3]))
                pls.add(tuple((x[0],) + ((x[1],) if len(x) > 1 else ()) for x in pl))
    ok = len(pls) >= 1
    why = ''
    if not pls:
        # the same selection written as a loop: `for n in closest_nodes(..) { if !(questionable && !recent) { continue } v.push(*n.handle()); if v.len() == N { break } }`
        lvs = set()
        for p in s.paths:
            for e in p.effects:
                if e[0] == 'call' and e[1] and e[1].split('::')[-1] == 'push':
                    r = lib.root_of(strip_transparent(e[2][0]))
                    if isinstance(r, tuple) and r and r[0] == 'loopvar':
                        lvs.add(r)
        for lv in lvs:
            try:
                st = lib.loop_stream(s, lv)
            except Lost:
                continue
            if not find_calls(st['src'], 'closest_nodes'):
                continue
            ok = True
            src = strip_transparent(st['src'])
            tgt = strip_transparent(src[2][1]) if src[0] == 'call' and src[1] == 'table::RoutingTable::closest_nodes' else None
            if not (tgt and tgt[0] == 'call' and tgt[1] == 'info_hash::InfoHash::flip_bit' and find_calls(tgt, 'RoutingTable::node_id')):
                ok = False
                why = 'source is not closest_nodes(own_id.flip_bit(cursor))'
            cap = st['cap']
            if not (cap is not None and term_int(cap) == 4 and strip_transparent(cap)[2] == 'action::refresh::REFRESH_CONCURRENCY'):
                ok = False
                why = 'the loop is not cut off at REFRESH_CONCURRENCY entries'
            is_elem = st['is_elem']

            def classify_l(lit, c):
                sa = status_atom(ctx, lit, lambda call: is_elem(_strip_refs(call[2][0])))
                if sa is not None:
                    return ('S', sa)
                rel, a, b2, truth = lit
                if rel == 'bool' and isinstance(a, tuple) and a[0] == 'call' and a[1] == 'node::Node::recently_requested_from' and truth is not None:
                    return ('R', truth)
                raise Lost('refresh candidate loop: unrecognised condition %s %s' % (rel, fmt(a)))

            class _Row:
                def __init__(self, conds):
                    self.conds = conds
            try:
                rows = []
                for lits, pushed, pp in st['rows']:
                    good_push = pushed is not None and bool(find_calls(pushed, 'Node::handle')) and is_elem(_strip_refs(find_calls(pushed, 'Node::handle')[0][2][0]))
                    rows.extend(lib.Table.build([_Row(lits)], classify_l, lambda _p, g=good_push, pu=pushed: (True if g else False if pu is None else 'push-other')).rows)
                badl, nl_ = lib.Table(rows).compare({'S': list(STATUS), 'R': BOOL}, lambda v: v['S'] == 'Questionable' and not v['R'])
                if badl:
                    ok = False
                    why = '; '.join('%s -> got %s want %s' % x for x in badl[:2])
            except Lost as e:
                ok = False
                why = str(e)
            break
    for pl in pls:
        names = [x[0] for x in pl]
        nf = names.count('filter')
        if not (nf >= 1 and names == ['src'] + ['filter'] * nf + ['take', 'map', 'collect']):
            ok = False
            why = 'pipeline shape %s' % names
        else:
            src = pl[0][1]
            tgt = strip_transparent(src[2][1]) if src[0] == 'call' and src[1] == 'table::RoutingTable::closest_nodes' else None
            if not (tgt and tgt[0] == 'call' and tgt[1] == 'info_hash::InfoHash::flip_bit' and find_calls(tgt, 'RoutingTable::node_id')):
                ok = False
                why = 'source is not closest_nodes(own_id.flip_bit(cursor))'
            tk = pl[1 + nf][1]
            if not (term_int(tk) == 4 and tk[2] == 'action::refresh::REFRESH_CONCURRENCY'):
                ok = False
                why = 'take bound is not REFRESH_CONCURRENCY'
            # the filters, however they are split or merged, jointly keep exactly: questionable AND NOT asked in the last 30 s

            def classify_f(lit, c):
                sa = status_atom(ctx, lit, lambda call: True)
                if sa is not None:
                    return ('S', sa)
                rel, a, b2, truth = lit
                if rel == 'bool' and isinstance(a, tuple) and a[0] == 'call' and a[1] == 'node::Node::recently_requested_from' and truth is not None:
                    return ('R', truth)
                raise Lost('refresh candidate filter: unrecognised condition %s %s' % (rel, fmt(a)))
            tabs = []
            try:
                for x in pl[1:1 + nf]:
                    fb, cps = closure_bool_ret(ctx, res, x[1])
                    tabs.append(lib.bool_table(cps, classify_f))
                for S in STATUS:
                    for R in BOOL:
                        outs = []
                        for t in tabs:
                            got = t.lookup({'S': S, 'R': R})
                            if not got or len(set(got)) != 1:
                                raise Lost('filter undecided for %s/%s' % (S, R))
                            outs.append(got[0])
                        if all(outs) != (S == 'Questionable' and not R):
                            ok = False
                            why = 'status %s, recently asked %s -> kept %s' % (S, R, all(outs))
            except Lost as e:
                ok = False
                why = str(e)
    res.check(ok, 'TABLE', b.path, 'a round contacts closest_nodes(own id with the cursor bit flipped) that are questionable and not asked in the last 30 s, at most REFRESH_CONCURRENCY', detail=why, key='candidates')
    # each loop iteration: find_node to node.addr with a fresh id, then local_request on the table entry, also when the send failed
    okl = True
    nl = 0
    for p in s.paths:
        if p.end != 'loop':
            continue
        sends = [e for e in p.effects if e[0] == 'call' and e[1] == 'socket::Socket::send']
        if not sends:
            continue
        nl += 1
        m = message_of_send(sends[0])
        kind, inner = body_of_message(m) if m else (None, None)
        if kind != 'Request' or agg_variant(inner) != 'FindNode' or not is_generate(m[2].get('transaction_id')):
            okl = False
        dest = strip_transparent(sends[0][2][2])
        if field_chain(dest)[-1:] != ['addr'] or not find_calls(dest, '::next'):
            okl = False
        fm = [e for e in p.effects if e[0] == 'call' and e[1] == 'table::RoutingTable::find_node_mut']
        if not fm or not find_calls(fm[-1][2][1], '::next'):
            okl = False
        found = [literal(c)[2] for c in p.conds if literal(c)[0] == 'variant' and literal(c)[1][0] == 'call' and literal(c)[1][1] == 'table::RoutingTable::find_node_mut']
        marked = any(e[0] == 'call' and e[1] == 'node::Node::local_request' for e in p.effects)
        if found and option_is_some(found[-1]) and not marked:
            okl = False
    res.check(okl and nl >= 2, 'MPT', b.path, 'every contacted node receives a find_node with a fresh id of the refresh activity and is marked as queried (local_request) whether or not the send succeeded', detail='%d loop paths' % nl)
    # cursor discipline
    ws = ctx.field_writes(r'^action::refresh::TableRefresh$', 'curr_refresh_bucket')
    vals = set()
    for p in s.paths:
        for e in p.effects:
            if e[0] == 'write' and is_field_of_param(e[1], 'self', 'curr_refresh_bucket'):
                v = e[2]
                if term_int(v) == 0 and v[0] == 'int':
                    vals.add('reset')
                elif v[0] == 'bin' and v[1] == 'Add' and term_int(v[3]) == 1:
                    vals.add('+1')
                else:
                    vals.add(fmt(v))
    okc = vals <= {'reset', '+1'} and {x[0].path for x in ws} <= {b.path}
    flips = ctx.calls_in(b, 'info_hash::InfoHash::flip_bit')
    # the reset test precedes flip_bit: on every path, the literal cursor == MAX_BUCKETS was evaluated before
    okr = bool(flips)
    for p in s.paths:
        fl = [e for e in p.effects if e[0] == 'call' and e[1] == 'info_hash::InfoHash::flip_bit']
        if not fl:
            continue
        tested = [literal(c) for c in p.conds if literal(c)[0] == 'eq' and (is_field_of_param(literal(c)[1], 'self', 'curr_refresh_bucket') or is_field_of_param(literal(c)[2], 'self', 'curr_refresh_bucket'))]
        if not tested or term_int(tested[0][2] if is_field_of_param(tested[0][1], 'self', 'curr_refresh_bucket') else tested[0][1]) != 160:
            okr = False
        elif tested[0][3] is True and not any(e[0] == 'write' and is_field_of_param(e[1], 'self', 'curr_refresh_bucket') and term_int(e[2]) == 0 for e in p.effects[:p.effects.index(fl[0])]):
            okr = False
    res.check(okc and okr, 'TABLE', b.path, 'the cursor is reset when it equals MAX_BUCKETS before it indexes a bit, and otherwise only advances by one', detail=str(vals))
    rb = ctx.body('node::Node::recently_requested_from')
    res.touch(rb)
    rs = Sym(rb)
    rs.run()

    def classify(lit, c):
        rel, a, b2, truth = lit
        if rel == 'variant' and is_field_of_param(a, 'self', 'last_local_request'):
            return ('asked', option_is_some(b2))
        if rel == 'lt':
            now = strip_transparent(a)
            if now[0] == 'call' and now[1] == 'time::Instant::now' and b2[0] == 'call' and b2[1].endswith('::add') and lib.term_duration_ms(b2[2][1], ctx.f) == 30000 \
                    and field_chain(strip_transparent(b2[2][0]))[:1] == ['last_local_request']:
                return ('within30', truth)
        raise Lost('recently_requested_from: unrecognised condition')

    tab = lib.bool_table(rs.complete_paths(), classify)
    bad, n = tab.compare({'asked': BOOL, 'within30': BOOL}, lambda v: v['asked'] and v['within30'], consistent=lambda v: v['asked'] or not v['within30'])
    res.check(not bad, 'TABLE', rb.path, 'recently asked <=> a query was sent and now < that time + 30 s', detail=str(bad[:2]))
