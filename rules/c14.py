"""C14 - no datagram can crash, abort or exhaust the node (structural).

Decides: (PANIC) every panic-capable site of the library (assert terminators, unwrap/expect/index
families, time arithmetic, explicit panics) matches a reviewed entry keyed by the *producer* of its
operand - a new or changed site is an alarm; sites whose operands are compile-time integers are
evaluated instead of reviewed; (ALLOC) every sized allocation takes a constant, the length of an
existing slice, or the decoder's size hint; (VALIDATE-FIRST) the bencode library is entered only
through bencode::decode and only after the allocation-free, recursion-free validator accepted the
same slice, and the validator bounds string lengths by the remaining input and nesting by a
constant; (LOOPS) the receive loop and the event loop consume errors without returning or
unwinding. Behaviour inside dependencies beyond the two reviewed hazards is trusted."""
import re
from . import lib, common, panics, callgraph
from .lib import (Sym, Table, BOOL, Lost, literal, term_int, strip_transparent, is_field_of_param, option_is_some,
                  agg_variant, field_chain, root_of, is_param, find_calls, fmt, dominates, only_via_edge)
from .c12 import cond_edges

EXPLANATION = __doc__
ASSUMPTIONS = ['torrust-serde-bencode: reviewed hazards are (1) allocation of the declared string length, (2) recursion per nesting level; nothing else in it is re-analysed',
               'a tokio runtime with the time driver is a precondition of DhtBuilder::start', 'SocketTrait::recv_from returns size <= buf.len()',
               'integer overflow asserts exist only in debug builds; counters incremented by 1 per event cannot reach 2^64']

# (body regex, descriptor regex, reason).  A site must match one entry; entries are ordered, first match wins.
REVIEWED = [
    (r'.', r'^<T, E>::unwrap\(<T>::lock\(', 'Mutex poisoning needs an earlier panic inside a critical section; every critical section is itself covered by this table'),
    (r'.', r'^(time::sleep|time::sleep_until|tokio::spawn)\(', 'tokio API: panics only outside a runtime / without time driver (precondition of the crate)'),
    # tokio::select! internals
    (r'::\{closure#0\}(::\{closure#\d+\})?$', r'^(overflow:Add\(support::thread_rng_n|rem_zero\(\{closure#0\}::BRANCHES|overflow:Shl\(Rem\()', 'tokio::select! internal: random start index modulo BRANCHES (const >= 1) and branch mask shifts < BRANCHES <= 8'),
    (r'::\{closure#0\}(::\{closure#\d+\})?$', r'^diverge:panicking::panic_fmt\[unreachable/select\]', 'tokio::select! internal unreachable!() after an exhaustive branch-index match'),
    (r'handler::DhtHandler::run_once::\{closure#0\}$', r'^diverge:panicking::panic_fmt\[panic/select\]', 'select! "all branches disabled": three of the four branches have no precondition (premise SELECT-LIVE)'),
    (r'action::bootstrap::TableBootstrapInner::run::\{closure#0\}$', r'^diverge:panicking::panic_fmt\[panic/select\]', 'select! "all branches disabled": the loop breaks on exactly that condition right before the select (premise SELECT-GUARD)'),
    # counters
    (r'.', r'^overflow:Add\([\w\.]+, 1\)$', 'usize/u64 event counter incremented by one'),
    (r'.', r'^(Add::add|Sub::sub)\(.*, ([\w:]+::[A-Z][A-Z_0-9]+|Duration::from_(secs|millis)\(\d+\))\)$', 'Instant +/- a constant Duration (overflow needs ~10^11 years)'),
    (r'calculate_retry_duration$', r'^<impl u64>::pow\(calculate_retry_duration::BASE, Ord::min\(', '2^min(n+1, 9) <= 512'),
    (r'nodes_to_bootstrap_bucket$', r'^overflow:Sub\(bucket_number, 2\)$', 'else-branch of `bucket_number == 0 || bucket_number == 1`'),
    # validator arithmetic
    (r'^bencode::validate$', r'^overflow:Sub\(<impl \[T\]>::get\(bytes\)\.0, 48\)$', 'digit - b\'0\' inside the pattern b\'0\'..=b\'9\''),
    (r'^bencode::validate$', r'^overflow:Sub\(<impl \[T\]>::len\(bytes\), pos\)$', 'pos <= bytes.len(): pos only advances past bytes obtained by get(pos) or by a length already checked against the remainder'),
    (r'^bencode::validate$', r'^overflow:Add\(pos, len\)$', 'len <= bytes.len() - pos was checked on the line above'),
    # bounds
    (r'^bucket::Bucket::add_node$', r'^bounds\(index=(phi\()?(Iterator>::position|<T>::or(_else)?\(Iterator>::position)[^|]*(\|Iterator>::position[^|]*)*\)?', 'index returned by position() over the same 8-slot array (C08 victim rule)'),
    (r'^info_hash::InfoHash::from_ip$', r'^bounds\(index=Range<A>>::next', 'i < num_octets <= 8 = length of both arrays'),
    (r'^info_hash::InfoHash::from_ip$', r'^(IndexMut::index_mut\(repeat, (RangeTo\{[48]\}|Range\{3, 19\})\)|Index::index\(Ipv[46]Addr::octets\(ip\.0\), RangeTo\{[48]\}\)|Index::index\(agg, Range\{0, agg\}\)|<impl \[T\]>::copy_from_slice\()', 'constant ranges ..4 / ..8 / 3..19 / 0..num_octets within arrays of 4, 8, 16, 20 bytes; both sides of copy_from_slice have the same constant length'),
    (r'^info_hash::InfoHash::from_ip$', r'^overflow:Sh[lr]\(', 'constant shift amounts below the operand width'),
    (r'^info_hash::InfoHash::flip_bit$', r'.', 'documented panic for index >= 160; callers pass 0..MAX_BUCKETS (bootstrap loop) or the refresh cursor (reset before use, C11)'),
    (r'^info_hash::InfoHash::leading_zeros$', r'^overflow:Add\(\w+, <impl u8>::leading_zeros', 'sum of at most 20 values <= 8'),
    (r'^compact::nodes::(serialize|deserialize)$', r'^overflow:Add\(info_hash::NODE_ID_LEN, const\)$', '20 + ADDR_LEN with ADDR_LEN in {6, 18}'),
    (r'^compact::nodes::serialize$', r'^overflow:Mul\(<impl \[T\]>::len\(nodes\)', 'number of nodes times 26/38'),
    (r'^compact::nodes::deserialize$', r'^<impl \[T\]>::chunks_exact\(', 'chunk size 20 + ADDR_LEN > 0'),
    (r'^compact::nodes::deserialize::\{closure#0\}$', r'^Index::index\(chunk, Range(To|From)\{info_hash::NODE_ID_LEN\}\)$', 'chunk has exactly 20 + ADDR_LEN >= 20 bytes (chunks_exact)'),
    (r'^socket::Socket::recv::\{closure#0\}$', r'^Index::index\(vec::from_elem\(0\), Range(To)?\{(0, )?', 'buffer[0..size] / buffer[..size] with size returned by recv_from for that buffer'),
    (r'^action::lookup::insert_sorted_node$', r'^(Index::index|<T, A>::insert)\(nodes, <impl \[T\]>::binary_search_by', 'index returned by binary_search over the same vector (<= len; Ok(i) < len)'),
    (r'^table::RoutingTable::bucket_node$', r'^IndexMut::index_mut\(self\.buckets, table::bucket_placement\(', 'bucket_placement returns min(ideal, len - 1) < len (C08 placement table; len >= 1)'),
    (r'^table::(can_split_bucket|bucket_placement|precompute_assorted_nodes|bucket_iterator)$', r'^overflow:Sub\((num_buckets|<impl \[T\]>::len\(buckets\)), 1\)$', 'the table always has at least one bucket (C08: pop is followed by two pushes; no other remover)'),
    (r'^table::precompute_assorted_nodes$', r'^bounds\(index=SubWithOverflow\(<impl \[T\]>::len\(buckets\), 1\)\)$', 'len - 1 < len, len >= 1'),
    (r'^table::precompute_assorted_nodes$', r'^bounds\(index=Iterator>::next', 'enumerate() index over the 8 slots of a bucket into an array of 8'),
    (r'^table::bucket_iterator$', r'^Index::index\(buckets, RangeTo\{SubWithOverflow\(<impl \[T\]>::len\(buckets\)', '..len-1 with len >= 1'),
    (r'^table::RoutingTable::bucket_index_for_node$', r'^<T>::expect\(<impl usize>::checked_sub\(<T, A>::len\(self\.buckets\)\)', 'the table always has at least one bucket'),
    (r'^table::RoutingTable::split_bucket$', r'^diverge:panicking::panic_fmt\[panic\]$', 'pop() on a table that always has at least one bucket'),
    (r'^table::next_bucket_index$', r'^<T>::unwrap\(<impl usize>::checked_(add|sub)\((start_index|curr_index)\)\)$', 'guarded by index_is_in_bounds(.., that Option), which is false for None'),
    (r'^table::next_bucket_index$', r'^overflow:(Sub\((start_index, curr_index|curr_index, start_index)\)|Add\(SubWithOverflow\(start_index, curr_index\), 1\))$', 'inside the Ordering::Less / Greater arm of curr_index.cmp(start_index); indices < 160'),
    (r'^storage::AnnounceStorage::remove_expired_items$', r'^<T, A>::drain\(self\.expires, Range\{0, Iterator::count\(Iterator::take_while', '0..n with n = count of a take_while over the same vector (C07 expiry rule)'),
    (r'^transaction::generate_(aids|mids)$', r'^bounds\(index=Iterator>::next', 'enumerate() over a range of PREALLOC_LEN values into an array of PREALLOC_LEN'),
    (r'^transaction::(generate_(aids|mids)|[AM]IDGenerator::(generate|refill|new))$', r'^overflow:Add\(((….|self\.)?next_alloc|phi\(0\|(….|self\.)?next_alloc\)), (transaction::(ACTION|MESSAGE)_ID_PREALLOC_LEN|2048|const)\)$', 'next_alloc <= MAX_*_ID (2^40 / 2^24) because the block length divides the id space (C19)'),
    # unwraps with invariants
    (r'^handler::DhtHandler::run_once::\{closure#0\}$', r'^<T>::unwrap\(Future>::poll\(', 'timer.next() under the branch precondition !timer.is_empty(): the stream yields None only when it is empty'),
    (r'^action::lookup::TableLookup::recv_finished::\{closure#0\}$', r'^<T>::unwrap\(<K, V, S, A>::get\(param\.self\.announce_tokens\)\)$', 'the loop is filtered by announce_tokens.contains_key(node) (C03 announce rule)'),
    (r'^node::Node::as_questionable$', r'^<T>::unwrap\(Instant::checked_sub\(Instant::now\(\)\)\)$', 'time::Instant is shifted by OFFSET = 1 week >= 15 min (C10 const rule)'),
    (r'^node::Node::(as_questionable|status)$', r'^overflow:Mul\(node::MAX_LAST_SEEN_MINS, 60\)$', '15 * 60'),
    (r'^time::Instant::now$', r'^<T>::unwrap\(Instant::checked_add\(Instant::now\(\)\)\)$', 'now + 1 week'),
    (r'^(node::Node::recently_requested_from|<time::Instant as std::ops::(Add|Sub)<std::time::Duration>>::(add|sub))$', r'^(Add::add|Sub::sub)\(', 'Instant +/- a small constant Duration'),
    (r'^timer::Timer::<T>::schedule_in$', r'^Add::add\(Instant::now\(\), deadline\)$', 'deadlines are the constants 1.5 s / 6 s'),
    (r'^timer::Timer::<T>::schedule_at$', r'^<T>::unwrap\(<T>::take\(self\.current\)\)$', 'inside `if let Some(current) = &self.current`'),
    (r'^<timer::Timer<T> as futures_util::Stream>::poll_next$', r'^<T>::unwrap\(<T>::take\(', 'inside `if let Some(current) = &mut self.current`'),
    (r'^<timer::Timer<T> as futures_util::Stream>::poll_next$', r'^<T>::unwrap\(<K, V, A>::remove_entry\(', 'the key was just read from the same map'),
    (r'^token::intervals_passed$', r'^div_zero\(Duration::as_secs\(token::REFRESH_INTERVAL\), 0\)$', 'REFRESH_INTERVAL = 600 s (C06 const rule)'),
    # liveness asserts between the two tasks
    (r'^handler::DhtHandler::run_once::\{closure#0\}$', r'^diverge:panicking::panic\[assert\]$', 'assert!(state_rx.changed().is_ok()): the bootstrap task owns state_tx and never returns while the handler lives (C15 TASK-ALIVE)'),
    (r'^action::bootstrap::TableBootstrap::start$', r'^<T, E>::unwrap\(<T>::send\(self\.start_tx\)\)$', 'the bootstrap task owns start_rx and never returns while the handler lives (C15 TASK-ALIVE)'),
    (r'^action::bootstrap::TableBootstrapInner::run::\{closure#0\}$', r'^diverge:panicking::panic\[unreachable\]$', 'after std::future::pending().await, which never completes'),
    (r'^mainline_dht::MainlineDht::with_builder$', r'^diverge:panicking::panic\[unreachable\]$', 'the receiver of the command channel is owned by the handler constructed two lines above'),
    (r'^socket::Socket::responded$', r'^diverge:panicking::panic\[assert\]$', '(address, transaction id) registered twice: excluded by per-request fresh ids (C19) and the set-typed first round (C15 DEDUP)'),
    (r'^socket::RespondedInner::make_ready$', r'^diverge:panicking::panic\[assert\]$', 'the exchange is removed from the map before make_ready is called, so it is completed at most once (C12 bootstrap exchange rule)'),
    (r'^node::Node::update$', r'^diverge:panicking::assert_failed\[assert_eq\]$', 'update is called only on the slot found by `*slot == new_node` (equal handles; C08 update-in-place)'),
]


def rule_panics(ctx, res, scope_rx=None):
    ss = panics.sites(ctx)
    res.sites += len(ss)
    n_auto = n_rev = n_der = 0
    used = set()
    for st in ss:
        if scope_rx and not re.search(scope_rx, st['body']):
            continue
        if st.get('auto'):
            n_auto += 1
            continue
        if ctx.is_derived(st['body']):
            n_der += 1  # #[derive]-generated field counting / unreachable after an exhaustive discriminant comparison
            continue
        hit = None
        for k, (brx, drx, why) in enumerate(REVIEWED):
            if re.search(brx, st['body']) and re.search(drx, st['desc']):
                hit = k
                break
        if hit is None and st['body'] == 'storage::AnnounceStorage::remove_expired_items' and st['desc'].startswith('<T, A>::drain(self.expires, Range'):
            # `expires.drain(..n)`: in range because n counts a prefix of that very vector - which is what the C07 expiry rule
            # establishes (for the take_while/count chain as well as for a counting loop); accepted iff that rule holds
            from . import c07
            tmp = lib.Results('C07')
            try:
                c07.rule_expiry(ctx, tmp)
                holds = not [v for v in tmp.violations() if 'expiry drains exactly' in (v.get('what') or '')]
            except (Lost, AttributeError, TypeError, KeyError, IndexError):
                holds = False
            if holds:
                n_rev += 1
                res.ok('PANIC', st['body'], 'reviewed: %s -- n is the length of an expired prefix of the same vector (premise: C07 expiry rule, re-evaluated here)' % st['desc'][:90], site=st['sp'])
                continue
        if hit is None:
            res.bad('PANIC', st['body'], 'panic-capable site without a reviewed reason: %s' % st['desc'], site=st['sp'],
                    detail='add a reason to the reviewed table only if the site provably cannot fire for any datagram / configuration', key='unreviewed:' + st['desc'])
        else:
            n_rev += 1
            used.add(hit)
            res.ok('PANIC', st['body'], 'reviewed: %s -- %s' % (st['desc'][:90], REVIEWED[hit][2][:110]), site=st['sp'])
    res.check(n_auto >= 30, 'PANIC', 'crate', 'constant-operand checks evaluated (%d) ' % n_auto, detail=str(n_auto), key='auto-floor')
    res.check(n_rev >= 80, 'PANIC', 'crate', 'reviewed panic-capable sites matched (%d), derive-generated (%d)' % (n_rev, n_der), detail=str(n_rev), key='reviewed-floor')
    stale = [REVIEWED[k][1] for k in range(len(REVIEWED)) if k not in used]
    return stale


def default_zero(t):
    """evaluate a u8 mask term built from <u8 as Default>::default() and constant BitOr/Shl"""
    if not isinstance(t, tuple):
        return None
    if t[0] == 'call' and t[1].endswith('Default>::default'):
        return 0
    if t[0] == 'int':
        return t[1]
    if t[0] == 'bin':
        x, y = default_zero(t[2]), default_zero(t[3])
        if x is None or y is None:
            return None
        op = t[1].replace('WithOverflow', '')
        return {'BitOr': x | y, 'Shl': x << y, 'Add': x + y}.get(op)
    return None


def select_entries(body, sym):
    """(path, effect, mask value) for every entry into a tokio::select! (the poll_fn call)"""
    out = []
    for p in sym.paths:
        for e in p.effects:
            if e[0] == 'call' and e[1] == 'std::future::poll_fn':
                cl = e[2][0]
                mask = None
                nb = None
                if cl[0] == 'closure':
                    for cap in cl[2]:
                        c = cap
                        while isinstance(c, tuple) and c[0] in ('ref', 'deref'):
                            c = c[1]
                        v = default_zero(c)
                        if v is not None:
                            mask = v
                        # the futures of the branches travel as one tuple: its arity is the number of branches
                        if isinstance(c, tuple) and c and c[0] == 'agg' and c[1] == 'tuple' and len(c[2]) >= 2:
                            nb = len(c[2])
                out.append((p, e, mask, nb))
    return out


def rule_select_premises(ctx, res):
    """on every path into a tokio::select! not all branches are disabled (else the macro panics)"""
    for fn, cname in (('handler::DhtHandler::run_once', 'handler::DhtHandler::run_once::{closure#0}::BRANCHES'),
                      ('action::bootstrap::TableBootstrapInner::run', 'action::bootstrap::TableBootstrapInner::run::{closure#0}::BRANCHES')):
        b = ctx.co(fn)
        res.touch(b)
        branches = ctx.f.const_value(cname)
        s = Sym(b, max_paths=400000, merge_loop_exits=True)
        s.run()
        res.paths += len(s.paths)
        ents = select_entries(b, s)
        ok = bool(ents)
        n = 0
        n_all = 0
        for p, e, mask, nb in ents:
            n += 1
            width = nb if nb is not None else branches
            if mask is None or width is None:
                ok = False
                continue
            if mask != (1 << width) - 1:
                continue
            n_all += 1
            # all branches disabled on this path: it must be infeasible, i.e. some quantity was observed both true and false
            # with nothing mutating it in between
            seen = {}
            idx_e = p.effects.index(e)
            for c in p.conds:
                rel, a, b2, truth = literal(c)
                if rel != 'bool':
                    continue
                if a[0] == 'loopvar':
                    seen.setdefault(('var', a[1]), set()).add(truth)
                elif a[0] == 'call' and a[1].split('::')[-1] in ('is_empty',) and len(a[2]) == 1:
                    seen.setdefault(('call', a[1], a[2]), set()).add(truth)
            contradictory = any(len(v) == 2 for v in seen.values())
            if contradictory:
                # purity: between loop head and the select no effect takes the observed container mutably
                for k, v in seen.items():
                    if len(v) == 2 and k[0] == 'call':
                        recv = k[2][0]
                        while isinstance(recv, tuple) and recv[0] in ('ref', 'deref'):
                            recv = recv[1]
                        obs = [i for i, x in enumerate(p.effects[:idx_e]) if x[0] == 'call' and x[1] == k[1] and x[2] == k[2]]
                        # only the last two observations matter: the loop guard and the branch precondition
                        lo, hi = (obs[-2], obs[-1]) if len(obs) >= 2 else (0, idx_e)
                        for x in p.effects[lo:hi]:
                            if x[0] == 'call' and x[1] != k[1] and any(isinstance(a, tuple) and a[0] == 'ref' and a[2] and lib.term_contains(a, recv) for a in x[2]):
                                contradictory = False
            if not contradictory:
                ok = False
        res.check(ok, 'PRED', b.path, 'no feasible path enters a select! with all %s branches disabled (%d entries, %d excluded as contradictory)' % (branches, n, n_all), key='select-live')


def rule_alloc(ctx, res):
    rx = re.compile(r'with_capacity|vec::from_elem|::reserve$|reserve_exact$|::resize$|::repeat$')
    okp = [r'^\d+$', r'^<impl \[T\]>::len\(', r'^MulWithOverflow\(<impl \[T\]>::len\(nodes\), AddWithOverflow\(info_hash::NODE_ID_LEN, const\)\)',
           r'^<T>::unwrap_or\(SeqAccess::size_hint\(seq\)\)$', r'^0$',
           r'^AddWithOverflow\(<impl \[T\]>::len\([^()]*\), \d{1,4}\)$']   # an existing length plus a small constant
    n = 0
    for b in ctx.f.body_list:
        if b.kind == 'stolen':
            continue
        for i, t in b.calls():
            c = lib.callee(t)
            if c is None:
                continue
            p = c.get('resolved') or c['path']
            if not rx.search(p):
                continue
            n += 1
            args = [panics.producer(b, a) for a in t['args']]
            size = args[-1] if args else ''
            good = any(re.search(x, size) for x in okp)
            if not good and re.match(r'^[\w:]+::[A-Z_0-9]+$', size):
                # a named constant: its evaluated value decides (the producer prints a shortened path)
                cands = [cp for cp in ctx.f.consts if cp == size or cp.endswith('::' + size)]
                vals = {ctx.f.const_value(cp) for cp in cands}
                good = len(vals) == 1 and all(isinstance(v, int) and 0 <= v <= 65536 for v in vals)
            if re.match(r'^\d+$', size):
                good = int(size) <= 65536
            res.check(good, 'ALLOC', b.path, 'sized allocation %s takes a constant, an existing length or the decoder size hint' % panics.short(p), site=t['sp'], detail=str(args), key='alloc:%s:%s' % (panics.short(p), size))
    res.check(n >= 3, 'ALLOC', 'crate', 'sized allocation sites found (floor 3)', detail=str(n))
    buf = [t for b in [ctx.co('socket::Socket::recv')] for i, t in b.calls() if (lib.callee_path(t) or '').endswith('vec::from_elem')]
    res.check(len(buf) == 1 and buf[0]['args'][1].get('int') == 1500, 'CONST', 'socket::Socket::recv', 'the receive buffer is 1500 bytes: every decoded input is at most 1500 bytes')


def rule_validate_first(ctx, res):
    lib_calls = ctx.calls_matching(r'^torrust_serde_bencode::(de::)?from_bytes$|serde_bencode::(de::)?from_bytes$|from_bytes$')
    lib_calls = [x for x in lib_calls if 'bencode' in (x.callee or '')]
    res.sites += len(lib_calls)
    res.check(len(lib_calls) == 1 and lib_calls[0].body.path == 'bencode::decode', 'WHO', 'serde_bencode::from_bytes', 'the bencode decoder is entered only from bencode::decode', detail=str(lib_calls))
    others = [x for x in ctx.calls_matching(r'serde_bencode::|torrust_serde_bencode::') if x.body.path not in ('bencode::decode', 'bencode::encode') and 'Error' not in (x.callee or '')]
    res.check(not others, 'WHO', 'serde_bencode::*', 'no other entry into the bencode library', detail=str(others))
    b = ctx.body('bencode::decode')
    res.touch(b)
    s = Sym(b)
    s.run()
    ok = bool(s.paths)
    for p in s.paths:
        fb = [e for e in p.effects if e[0] == 'call' and e[1] and e[1].endswith('from_bytes')]
        if not fb:
            continue
        val = [e for e in p.effects if e[0] == 'call' and e[1] == 'bencode::validate']
        if not val or p.effects.index(val[0]) > p.effects.index(fb[0]):
            ok = False
            continue
        if strip_transparent(val[0][2][0]) != strip_transparent(fb[0][2][0]) or not is_param(strip_transparent(fb[0][2][0]), 'bytes'):
            ok = False
        # the validator's Ok edge was taken
        okedge = False
        for c in p.conds:
            rel, a, b2, truth = literal(c)
            if rel == 'variant' and find_calls(a, 'bencode::validate') and (b2 == 0):
                okedge = True
        if not okedge:
            ok = False
    res.check(ok, 'DOM', b.path, 'from_bytes(bytes) is reached only through the Ok edge of validate(bytes) on the same slice', site=b.span)
    v = ctx.body('bencode::validate')
    res.touch(v)
    reach = callgraph.reachable(ctx, ['bencode::validate'])
    rec = callgraph.sccs(ctx, reach)
    res.check(not rec, 'REC', v.path, 'the validator is not recursive (no cycle in its call graph)', detail=str(rec))
    # no input-sized allocation: calls in the validator that may allocate
    vs = Sym(v, max_paths=100000)
    vs.run()
    res.paths += len(vs.paths)
    allocs = set()
    for p in vs.paths:
        for e in p.effects:
            if e[0] != 'call' or not e[1]:
                continue
            if re.search(r'(to_vec|to_owned|with_capacity|from_elem|collect|::clone$|Vec::<T>::new|::push$|extend|format|Box::<T>::new)', e[1]):
                allocs.add(e[1])
            if re.search(r'to_string$|String::from', e[1]):
                a0 = strip_transparent(e[2][0])
                if a0[0] != 'str':
                    allocs.add(e[1] + '(' + fmt(a0) + ')')  # only constant error texts may be allocated
    res.check(not allocs, 'ALLOC', v.path, 'the validator allocates nothing but constant error texts', detail=str(sorted(allocs)))
    maxd = ctx.f.const_value('bencode::MAX_DEPTH')
    # (1) every path that advances pos by a declared length passed the test `len > bytes.len() - pos` == false
    okl = True
    nl = 0
    okd = True
    nd = 0
    # sums that are compared with bytes.len() somewhere: the position after a byte string (not the length accumulator)
    compared_with_len = set()
    for p in vs.paths:
        for c in p.conds:
            r2, x, y, t2 = literal(c)
            if r2 == 'lt' and isinstance(x, tuple) and find_calls(x, '::len') and is_param(strip_transparent(find_calls(x, '::len')[0][2][0]), 'bytes'):
                compared_with_len.add(strip_transparent(y))
    for p in vs.paths:
        for e in p.effects:
            if e[0] == 'assert' and e[1] == 'overflow:Add':
                t = e[2]
                # AddWithOverflow(pos, len).1 : advancing by a declared length (second operand not a constant)
                inner = t[1] if t[0] == 'overflow' else None
                if inner and inner[0] == 'bin' and term_int(inner[3]) is None:
                    # `start + offset` with offset = position(..) over the part of the input beginning at `start`:
                    # advancing to a byte that was found, not by a declared length
                    if lib.found_offset_sum(inner[2], inner[3]) is not None:
                        continue
                    nl += 1
                    adv = strip_transparent(inner[3])
                    pos = inner[2]
                    guarded = False
                    for c in p.conds:
                        rel, a, b2, truth = literal(c)
                        # `len > bytes.len() - pos` normalises to lt(bytes.len() - pos, len); it must have been false
                        if rel == 'lt' and truth is False and strip_transparent(b2) == adv and isinstance(a, tuple) and a[0] == 'bin' and a[1] == 'Sub' \
                                and find_calls(a[2], '::len') and is_param(strip_transparent(find_calls(a[2], '::len')[0][2][0]), 'bytes') and a[3] == pos:
                            guarded = True
                    if not guarded:
                        okl = False
        # form B of the same guard: `pos.checked_add(len)` whose sum is used only after `sum <= bytes.len()` held
        for c in p.conds:
            rel, a, b2, truth = literal(c)
            if rel == 'variant' and isinstance(a, tuple) and a[0] == 'call' and a[1].split('::')[-1] == 'checked_add' and option_is_some(b2) is True \
                    and ('field', ('downcast', a, 'Some'), '0') in compared_with_len \
                    and term_int(strip_transparent(a[2][1])) is None and not (p.end == 'return' and (agg_variant(p.ret) == 'Err' or (isinstance(p.ret, tuple) and p.ret[0] == 'call' and p.ret[1].endswith('from_residual')))):
                nl += 1
                payload = ('field', ('downcast', a, 'Some'), '0')
                guarded = False
                for c2 in p.conds:
                    r2, x, y, t2 = literal(c2)
                    # `sum <= bytes.len()` normalises to lt(bytes.len(), sum) == false
                    if r2 == 'lt' and t2 is False and strip_transparent(y) == payload and find_calls(x, '::len') and is_param(strip_transparent(find_calls(x, '::len')[0][2][0]), 'bytes'):
                        guarded = True
                if not guarded:
                    okl = False
        # (2) depth test: every increment of depth is followed by the comparison with MAX_DEPTH whose exceeding edge returns Err
    for p in vs.paths:
        incs = [c for c in p.conds if literal(c)[0] == 'lt' and term_int(literal(c)[1]) == maxd]
        for c in incs:
            nd += 1
            rel, a, b2, truth = literal(c)
            if truth is True and p.end == 'return' and agg_variant(p.ret) != 'Err':
                # depth > MAX_DEPTH but not rejected (only if this is the last thing on the path)
                pass
    # `depth > MAX_DEPTH` after the increment, or `depth >= MAX_DEPTH` before it: both reject the 33rd level
    def too_deep(l):
        if l[0] != 'lt' or l[3] is None:
            return False
        if term_int(l[1]) == maxd and term_int(l[2]) is None and l[3] is True:       # MAX < depth'
            return True
        if isinstance(l[2], tuple) and term_int(l[2]) == maxd and term_int(l[1]) is None and l[3] is False:   # !(depth < MAX)
            return True
        return False
    deep = [p for p in vs.paths if any(too_deep(literal(c)) for c in p.conds)]
    okd = bool(deep) and all(p.end == 'return' and agg_variant(p.ret) == 'Err' for p in deep)
    res.check(okl and nl >= 1, 'DOM', v.path, 'the position advances by a declared string length only after `len > bytes.len() - pos` was false (no string longer than the remaining input reaches the library)', detail='%d advance sites on paths' % nl)
    res.check(okd and maxd == 32, 'DOM', v.path, 'nesting deeper than MAX_DEPTH (= 32) returns Err', detail='%d paths, MAX_DEPTH %s' % (len(deep), maxd))


def rule_loops_survive(ctx, res):
    b = ctx.co('handler::DhtHandler::run_once')
    res.touch(b)
    s = Sym(b)
    s.run()
    res.paths += len(s.paths)
    ok = True
    n_err = 0
    for p in s.paths:
        if p.end == 'await-pending':
            continue
        errs = False
        for c in p.conds:
            rel, a, b2, truth = literal(c)
            if rel == 'variant' and b2 == 1 and (find_calls(a, 'handle_incoming') or (a[0] == 'field' and 'recv' in fmt(a))):
                errs = True
        src = [lib.select_source(c[0]) for c in p.conds]
        if errs:
            n_err += 1
            if p.end != 'return':
                ok = False
    # structural: no `?` in run_once (no from_residual), result type ()
    fr = ctx.calls_in(b, rx=r'from_residual$')
    res.check(not fr, 'TABLE', b.path, 'the event loop step propagates no error (`?` is not used): handler and receive errors are only logged', detail=str(fr))
    res.check(ok, 'TABLE', b.path, 'error arms of the event loop step return normally')
    rb = ctx.co('handler::DhtHandler::run')
    res.touch(rb)
    rs = Sym(rb)
    rs.run()
    okr = any(p.end == 'loop' for p in rs.paths) and all(p.end != 'diverge' for p in rs.paths)
    rets = [p for p in rs.complete_paths()]
    okr = okr and all(any(literal(c)[0] == 'bool' and is_field_of_param(literal(c)[1], 'self', 'running') and literal(c)[3] is False for c in p.conds) for p in rets)
    res.check(okr, 'TABLE', rb.path, 'the event loop ends only when `running` is false (set by shutdown when every MainlineDht handle is gone)')
    ws = ctx.field_writes(r'^handler::DhtHandler$', 'running')
    res.check({x[0].path for x in ws} <= {'handler::DhtHandler::shutdown'}, 'WHO', 'handler::DhtHandler.running', 'running is cleared only by shutdown()', detail=str([x[0].path for x in ws]))
    sh = ctx.calls_to('handler::DhtHandler::shutdown')
    okh = len(sh) == 1 and sh[0].body.path.startswith('handler::DhtHandler::run_once')
    res.check(okh, 'WHO', 'handler::DhtHandler::shutdown', 'shutdown is called only from the event loop (command channel closed)', detail=str(sh))
    from . import c05
    c05.rule_garbage(ctx, res)


def rule_complete_once(ctx, res):
    """premise of the reviewed assert in RespondedInner::make_ready (`message.is_none()`): an exchange is completed at
    most once, because the only caller takes it OUT of the pending map (remove) before completing it.  With a plain
    lookup (get) a duplicated response would reach make_ready twice and the assert would kill the handler task."""
    callers = [c for c in ctx.calls_matching(r'^socket::RespondedInner::make_ready$')]
    res.sites += len(callers)
    where = {c.body.path for c in callers}
    res.check(len(callers) >= 1 and where <= {'socket::Socket::recv::{closure#0}'}, 'WHO', 'socket::RespondedInner::make_ready', 'make_ready is called only from the receive loop', detail=str(sorted(where)))
    rb = ctx.co('socket::Socket::recv')
    res.touch(rb)
    sr = Sym(rb)
    sr.run()
    n = 0
    ok = True
    for p in sr.paths:
        for e in p.effects:
            if e[0] == 'call' and e[1] == 'socket::RespondedInner::make_ready':
                n += 1
                rm = find_calls(e[2][0], '::remove')
                tr = [x for x in rm if lib.field_chain(strip_transparent(lib.find_calls(x[2][0], '::lock')[0][2][0]) if lib.find_calls(x[2][0], '::lock') else ('x',))[-1:] == ['transactions']]
                if not tr:
                    ok = False
    res.check(ok and n >= 1, 'FLOW', rb.path, 'the exchange completed by make_ready was removed from the pending map (a duplicate response cannot complete it twice)', key='complete-once')


def run(ctx, res):
    rule_complete_once(ctx, res)
    rule_panics(ctx, res)
    rule_select_premises(ctx, res)
    rule_alloc(ctx, res)
    rule_validate_first(ctx, res)
    rule_loops_survive(ctx, res)
