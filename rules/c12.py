"""C12 - the routing table cannot be filled by parties the node did not ask (structural, all paths).

Decides: who may admit nodes and behind which guards (live search with that action id, the refresh
action id, or a bootstrap exchange keyed by (source address, transaction id)); query arms never
admit; the 8-byte transaction-id gate precedes any table write; hearsay is admitted only as
questionable and the responder only as good; the router / bad / own-id filter dominates placement."""
from . import lib, common
from .lib import (Sym, Lost, literal, term_int, strip_transparent, is_field_of_param, option_is_some, agg_variant,
                  field_chain, root_of, is_param, find_calls, fmt, only_via_edge)

EXPLANATION = __doc__
ASSUMPTIONS = ['HashMap::get_mut / remove return Some only for a key that was inserted', 'TryInto<[u8; N]> for &[u8] succeeds only for slices of length N',
               '"never reported good until they answer or query" is C10']

ADD_NODES = 'table::RoutingTable::add_nodes'


def cond_edges(body, paths, pred):
    """CFG edges (switch block -> target) of the path conditions whose literal satisfies pred"""
    edges = set()
    seen = set()
    for p in paths:
        for c in p.conds:
            if id(c) in seen:      # condition tuples are shared between the paths that run through them
                continue
            seen.add(id(c))
            if c[2] is None or c[2] < 0:
                continue
            lit = literal(c)
            if pred(lit):
                t = body.term(c[2])
                v = c[1]
                if isinstance(v, tuple) and v[0] == 'not':
                    tgt = t['otherwise']
                else:
                    tgt = dict((a, b) for a, b in t['arms']).get(v)
                if tgt is not None:
                    edges.add((c[2], tgt))
    return edges


def rule_response_routing(ctx, res):
    """handle_incoming_response: add_nodes only behind `lookups.get_mut(tid.action_id()) is Some` or
    `refresh.action_id() == tid.action_id()`; otherwise UnsolicitedResponse with no table/lookup call"""
    b = ctx.co('handler::DhtHandler::handle_incoming_response')
    res.touch(b)
    s = Sym(b)
    s.run()
    res.paths += len(s.paths)

    def parsed_tid(t):
        """the TransactionID parsed inside this function from its raw-bytes parameter: payload of
        `TransactionID::from_bytes(bytes)` = Some, or of `from_bytes(bytes).ok_or(..)?`.  Returns the from_bytes call."""
        t = strip_transparent(t)
        if not (isinstance(t, tuple) and len(t) == 3 and t[0] == 'field' and t[2] == '0' and isinstance(t[1], tuple) and t[1][0] == 'downcast' and t[1][2] in ('Some', 'Continue')):
            return None
        inner = strip_transparent(t[1][1])
        if t[1][2] == 'Continue':
            if not (inner[0] == 'call' and inner[1].endswith('Try>::branch')):
                return None
            inner = strip_transparent(inner[2][0])
            if inner[0] == 'call' and inner[1].split('::')[-1] in ('ok_or', 'ok_or_else'):
                inner = strip_transparent(inner[2][0])
        if inner[0] == 'call' and inner[1] == 'transaction::TransactionID::from_bytes' and is_param(root_of(strip_transparent(inner[2][0]))):
            return inner
        return None

    def is_tid_action(t):
        t = strip_transparent(t)
        if not (t[0] == 'call' and t[1] == 'transaction::TransactionID::action_id'):
            return False
        who = strip_transparent(t[2][0])
        return is_param(root_of(who), 'trans_id') or parsed_tid(who) is not None

    def tid_parse_test(lit):
        """`from_bytes(param bytes)` is Some / `from_bytes(..).ok_or(..)?` continues: True / False, else None"""
        rel, a, b2, truth = lit
        if rel != 'variant' or not isinstance(a, tuple) or a[0] != 'call':
            return None
        if a[1] == 'transaction::TransactionID::from_bytes' and is_param(root_of(strip_transparent(a[2][0]))):
            return option_is_some(b2)
        if a[1].endswith('Try>::branch'):
            inner = strip_transparent(a[2][0])
            if inner[0] == 'call' and inner[1].split('::')[-1] in ('ok_or', 'ok_or_else') and strip_transparent(inner[2][0])[0] == 'call' \
                    and strip_transparent(inner[2][0])[1] == 'transaction::TransactionID::from_bytes' and is_param(root_of(strip_transparent(strip_transparent(inner[2][0])[2][0]))):
                return b2 == 0 if not isinstance(b2, tuple) else (0 not in b2[1] and None)
        return None

    def lookup_hit(lit):
        rel, a, b2, truth = lit
        return (rel == 'variant' and a[0] == 'call' and a[1].endswith('::get_mut') and field_chain(strip_transparent(a[2][0])) == ['lookups']
                and is_tid_action(a[2][1]) and option_is_some(b2) is True)

    def refresh_hit(lit):
        rel, a, b2, truth = lit
        if rel != 'eq' or truth is not True:
            return False
        x, y = a, b2
        def is_refresh_id(t):
            return isinstance(t, tuple) and t[0] == 'call' and t[1] == 'action::refresh::TableRefresh::action_id' and field_chain(strip_transparent(t[2][0])) == ['refresh']
        return (is_refresh_id(x) and is_tid_action(y)) or (is_refresh_id(y) and is_tid_action(x))

    # decision table over L = "a live search owns this action id" (lookups.get_mut / get / contains_key on tid.action_id())
    # and R = "it is the refresh activity's id"; however the branches are nested, inverted or merged:
    #   L            -> add_nodes, then the search's recv_response
    #   not L, R     -> add_nodes only
    #   neither      -> Err(UnsolicitedResponse), nothing touched
    gate_inside = [False]

    def classify(lit, c):
        rel, a, b2, truth = lit
        tp = tid_parse_test(lit)
        if tp is not None:
            gate_inside[0] = True
            return ('T', bool(tp))
        if rel == 'variant' and isinstance(a, tuple) and a[0] == 'call' and a[1].split('::')[-1] in ('get_mut', 'get', 'remove') and field_chain(strip_transparent(a[2][0])) == ['lookups'] and is_tid_action(a[2][1]):
            if a[1].split('::')[-1] == 'remove':
                raise Lost('the search is removed while routing a response')
            return ('L', option_is_some(b2))
        if rel == 'bool' and isinstance(a, tuple) and a[0] == 'call' and a[1].split('::')[-1] == 'contains_key' and field_chain(strip_transparent(a[2][0])) == ['lookups'] and is_tid_action(a[2][1]) and truth is not None:
            return ('L', bool(truth))
        if rel == 'eq' and truth is not None:
            def is_refresh_id(t):
                return isinstance(t, tuple) and t[0] == 'call' and t[1] == 'action::refresh::TableRefresh::action_id' and field_chain(strip_transparent(t[2][0])) == ['refresh']
            if (is_refresh_id(a) and is_tid_action(b2)) or (is_refresh_id(b2) and is_tid_action(a)):
                return ('R', bool(truth))
        return None

    def outcome(p):
        added = sum(1 for e in p.effects if e[0] == 'call' and e[1] == ADD_NODES)
        fwd = any(e[0] == 'call' and e[1] == 'action::lookup::TableLookup::recv_response' for e in p.effects)
        touched = [e[1] for e in p.effects if e[0] == 'call' and e[1] and (e[1].startswith('table::') or e[1].startswith('action::lookup') or e[1].startswith('timer::') or e[1].startswith('node::Node::local') or e[1].startswith('socket::Socket::send'))]
        err = p.ret[0] == 'agg' and agg_variant(p.ret) == 'Err' and agg_variant(p.ret[2].get('0')) == 'UnsolicitedResponse'
        if err and not touched:
            return 'unsolicited'
        bad_tid = (p.ret[0] == 'agg' and agg_variant(p.ret) == 'Err' and agg_variant(p.ret[2].get('0')) == 'InvalidTransactionId') or \
                  (p.ret[0] == 'call' and p.ret[1].endswith('from_residual') and any(isinstance(x, tuple) and x and x[0] == 'agg' and str(x[1]).endswith('InvalidTransactionId') for x in lib.term_walk(p.ret)))
        if bad_tid and not touched and added == 0 and not fwd:
            return 'invalid-id'
        if added == 1 and fwd and not err:
            return 'search'
        if added == 1 and not fwd and not err:
            return 'refresh'
        return 'other: add_nodes x%d, forwarded %s, err %s' % (added, fwd, err)

    try:
        tab = lib.Table.build(s.complete_paths(), classify, outcome)
        if gate_inside[0]:
            # the raw id is parsed here rather than by the caller: a malformed id must end in InvalidTransactionId with nothing touched
            bad, n = tab.compare({'T': lib.BOOL, 'L': lib.BOOL, 'R': lib.BOOL}, lambda v: 'invalid-id' if not v['T'] else 'search' if v['L'] else 'refresh' if v['R'] else 'unsolicited')
        else:
            bad, n = tab.compare({'L': lib.BOOL, 'R': lib.BOOL}, lambda v: 'search' if v['L'] else 'refresh' if v['R'] else 'unsolicited')
        sites = ctx.calls_in(b, ADD_NODES)
        res.sites += len(sites)
        res.check(not bad and len(sites) >= 1, 'TABLE', b.path, 'a response reaches the table only for a live search (add_nodes + recv_response) or the refresh activity (add_nodes); '
                  'one matching neither ends in UnsolicitedResponse with no table, search, timer or socket call',
                  detail='; '.join('%s -> got %s want %s' % x for x in bad[:3]), key='response-routing')
    except Lost as e:
        res.bad('TABLE', b.path, 'a response reaches the table only for a live search or the refresh activity', detail=str(e), key='response-routing')
    # arguments of add_nodes: responder = Node::as_good(rsp.id, source address); hearsay = the response's node list of the own family
    for p in s.paths:
        for e in p.effects:
            if e[0] == 'call' and e[1] == ADD_NODES:
                check_add_nodes_args(res, b, e, 'rsp', 'addr')
    return gate_inside[0] and not res_failed(res, 'response-routing')


def res_failed(res, key):
    return any(v.get('key', '').endswith(key) or key in (v.get('key') or '') for v in res.violations())


def check_add_nodes_args(res, b, e, rsp_name, addr_name):
    node = strip_transparent(e[2][1])
    ok = node[0] == 'call' and node[1] == 'node::Node::as_good'
    if ok:
        rid = strip_transparent(node[2][0])
        src = strip_transparent(node[2][1])
        ok = field_chain(rid)[-1:] == ['id'] and is_param(root_of(rid)) and is_param(src) and (src[2] == addr_name)
    res.check(ok, 'FLOW', b.path, 'the responder offered to the table is Node::as_good(response id, datagram source address)', site=b.term(e[3])['sp'],
              detail=fmt(node)[:200], key='responder-as-good')
    lst = strip_transparent(e[2][2])
    fc = field_chain(lst)
    ok2 = fc[-1:] in (['nodes_v4'], ['nodes_v6']) and is_param(root_of(lst))
    res.check(ok2, 'FLOW', b.path, 'hearsay handed to add_nodes is the nodes / nodes6 list of the same response', site=b.term(e[3])['sp'], detail=fmt(lst)[:200], key='hearsay-list')


def rule_tid_gate(ctx, res, d, gate_inside=False):
    """Response arm: handle_incoming_response only behind TransactionID::from_bytes(..) = Some; 8-byte ids"""
    b = d.body
    from .c05 import paths_from_arm
    s = paths_from_arm(d, 'Response')
    res.paths += len(s.paths)
    n = 0
    ok = True
    for p in s.paths:
        calls = [e for e in p.effects if e[0] == 'call' and e[1] == 'handler::DhtHandler::handle_incoming_response']
        others = [e[1] for e in p.effects if e[0] == 'call' and e[1] and (e[1].startswith('table::') or e[1].startswith('action::lookup'))]
        if others:
            ok = False
        if not calls:
            continue
        n += 1
        # the id passed on is the Some payload of from_bytes(&message.transaction_id)
        tid = strip_transparent(calls[0][2][1])
        fb = find_calls(tid, 'TransactionID::from_bytes')
        good = bool(fb) and field_chain(strip_transparent(fb[0][2][0])) == ['transaction_id'] and is_param(root_of(strip_transparent(fb[0][2][0])), 'message')
        if not fb and gate_inside:
            # the raw id bytes are handed over and parsed by the router itself (its decision table has the parse as first test)
            good = field_chain(tid) == ['transaction_id'] and is_param(root_of(tid), 'message')
        src = strip_transparent(calls[0][2][2])
        good = good and is_param(src, 'addr')
        if not good:
            ok = False
    res.check(ok and n >= 1, 'DOM', 'handle_incoming/Response', 'responses reach the action router only with TransactionID::from_bytes(message.transaction_id) = Some and the datagram source; nothing else in the arm touches the table',
              site=b.term(d.arms['Response'])['sp'])
    # from_bytes = try_into::<[u8; 8]>
    fb = ctx.body('transaction::TransactionID::from_bytes')
    res.touch(fb)
    s2 = Sym(fb)
    s2.run()
    somes = [p for p in s2.complete_paths() if agg_variant(p.ret) == 'Some']
    def whole_conversion(p):
        # the fallible conversion must be of the whole byte string handed in (a conversion of a prefix accepts over-long ids)
        cs = find_calls(p.ret, 'try_into') + find_calls(p.ret, 'try_from')
        cs += [x for c in p.conds for x in find_calls(literal(c)[1], 'try_into') + find_calls(literal(c)[1], 'try_from')]
        return bool(cs) and all(is_param(strip_transparent(c[2][0])) and strip_transparent(c[2][0])[1] == 1 for c in cs)
    ok = len(somes) >= 1 and all(whole_conversion(p) for p in somes)
    adt = ctx.f.adts.get('transaction::TransactionID')
    fty = adt['variants'][0]['fields'][0].get('ty_norm') if adt else None
    n = ctx.f.const_value('transaction::TRANSACTION_ID_BYTES')
    res.check(ok and fty in ('[u8; 8]', '[u8; 8_usize]') and n == 8, 'TYPE', 'transaction::TransactionID', 'from_bytes is a fallible conversion into [u8; 8] (TRANSACTION_ID_BYTES = 8): other lengths are refused',
              detail='field type %s, const %s' % (fty, n))


def rule_add_nodes_shape(ctx, res):
    """add_nodes: first argument passed through unchanged, every slice element wrapped as questionable"""
    b = ctx.body(ADD_NODES)
    res.touch(b)
    s = Sym(b)
    s.run()
    res.paths += len(s.paths)
    ok = True
    n_wrap = 0
    for p in s.paths:
        for e in p.effects:
            if e[0] == 'call' and e[1] == 'table::RoutingTable::add_node':
                a = strip_transparent(e[2][1])
                if is_param(a, 'node'):
                    continue
                a = strip_transparent(lib.resolve_map_element(ctx, a, res))     # `.map(|h| Node::as_questionable(..))` feeding the loop
                if a[0] == 'call' and a[1] == 'node::Node::as_questionable':
                    n_wrap += 1
                    # id/addr come from the loop element
                    if not (field_chain(strip_transparent(a[2][0]))[-1:] == ['id'] and field_chain(strip_transparent(a[2][1]))[-1:] == ['addr'] and find_calls(a, '::next')):
                        ok = False
                    continue
                ok = False
    res.check(ok and n_wrap >= 1, 'TABLE', ADD_NODES, 'nodes named in a response are offered only as Node::as_questionable(id, addr); the responder is passed through unchanged', site=b.span)


def rule_bootstrap_exchange(ctx, res):
    """bootstrap handle_message arguments come from a Responded future; Socket::recv completes such a
    future only for the key (datagram source, transaction id) registered by send_request"""
    hm = 'action::bootstrap::TableBootstrapInner::handle_message'
    sites = ctx.calls_to(hm)
    res.sites += len(sites)
    run = ctx.co('action::bootstrap::TableBootstrapInner::run')
    res.touch(run)
    ok = len(sites) >= 1 and all(s.body.path == run.path for s in sites)
    res.check(ok, 'WHO', hm, 'handle_message is called only from the bootstrap task', detail='%s' % sites)
    # its arguments are the payload of `receivers.next().await` (FuturesUnordered<Responded>)
    s = Sym(run, max_paths=200000, merge_loop_exits=True)
    s.run()
    res.paths += len(s.paths)
    okf = True
    cnt = 0
    for p in s.paths:
        for e in p.effects:
            if e[0] == 'call' and e[1] == hm:
                cnt += 1
                src = lib.select_source(e[2][1])
                src2 = lib.select_source(e[2][2])
                if not (src is not None and src == src2 and src[0] == 'call' and src[1].endswith('StreamExt::next') and find_calls(src, 'FuturesUnordered::<Fut>::new')):
                    okf = False
    res.check(okf and cnt >= 2, 'FLOW', hm, 'the (message, source) handed to handle_message is the output of the select! branch awaiting receivers.next() on a FuturesUnordered', detail='%d uses' % cnt)
    tys = {l['ty'] for l in run.locals if l['ty'].startswith('futures_util::stream::FuturesUnordered<')}
    res.check(tys == {'futures_util::stream::FuturesUnordered<socket::Responded>'}, 'TYPE', run.path, 'the awaited set holds socket::Responded futures only', detail='%s' % sorted(tys))
    ra = ctx.aggregates(adt='socket::Responded')
    res.check({b.path for b, _, _ in ra} <= {'socket::Socket::responded'} and ra, 'WHO', 'socket::Responded', 'Responded futures are created only by Socket::responded', detail='%s' % [b.path for b, _, _ in ra])
    hb = ctx.body(hm)
    res.touch(hb)
    sh = Sym(hb)
    sh.run()
    for p in sh.paths:
        for e in p.effects:
            if e[0] == 'call' and e[1] == ADD_NODES:
                check_add_nodes_args(res, hb, e, 'message', 'from')
    # FuturesUnordered elements are Responded values from send_request
    # Socket::recv: make_ready only on transactions.remove(&(addr, message.transaction_id.clone())) = Some
    rb = ctx.co('socket::Socket::recv')
    res.touch(rb)
    sr = Sym(rb)
    sr.run()
    res.paths += len(sr.paths)
    okr = True
    nmr = 0
    for p in sr.paths:
        for e in p.effects:
            if e[0] == 'call' and e[1] == 'socket::RespondedInner::make_ready':
                nmr += 1
                tgt = e[2][0]
                rm = find_calls(tgt, '::remove')
                if not rm:
                    okr = False
                    continue
                key = strip_transparent(rm[0][2][1])
                if not (key[0] == 'agg' and key[1] == 'tuple'):
                    okr = False
                    continue
                k0 = strip_transparent(key[2].get('0'))
                k1 = strip_transparent(key[2].get('1'))
                # k0: address returned by recv_from; k1: transaction id of the decoded message
                if not (find_calls(k0, 'recv_from') or 'recv_from' in fmt(k0)) or field_chain(k1)[-1:] != ['transaction_id'] or not find_calls(k1, 'decode'):
                    okr = False
    res.check(okr and nmr >= 1, 'FLOW', 'socket::Socket::recv', 'a pending exchange is completed only for the key (datagram source address, decoded transaction id)', site=rb.span)
    mr_sites = ctx.calls_to('socket::RespondedInner::make_ready')
    res.check({x.body.path for x in mr_sites} <= {rb.path}, 'WHO', 'socket::RespondedInner::make_ready', 'make_ready is called only by Socket::recv', detail='%s' % mr_sites)
    # registration: responded(addr, message.transaction_id.clone(), ..) only from send_request, with its own parameters
    rs = ctx.calls_to('socket::Socket::responded')
    okk = len(rs) == 1 and rs[0].body.path == 'socket::Socket::send_request::{closure#0}'
    if okk:
        sb = rs[0].body
        ss = Sym(sb)
        ss.run()
        for p in ss.paths:
            for e in p.effects:
                if e[0] == 'call' and e[1] == 'socket::Socket::responded':
                    a = strip_transparent(e[2][1])
                    t = strip_transparent(e[2][2])
                    if not (is_param(a, 'addr') and field_chain(t) == ['transaction_id'] and is_param(root_of(t), 'message')):
                        okk = False
                if e[0] == 'call' and e[1] == 'socket::Socket::send':
                    a = strip_transparent(e[2][2])
                    m = strip_transparent(e[2][1])
                    if not (is_param(a, 'addr') and is_param(m, 'message')):
                        okk = False
    res.check(okk, 'FLOW', 'socket::Socket::send_request', 'an exchange is registered under (destination, transaction id) of the very request that is sent', detail='%s' % rs)
    ins = [x for x in ctx.calls_matching(r'HashMap<K, V, S>::insert$|HashMap::<K, V, S>::insert$') if x.body.path.startswith('socket::')]
    res.check({x.body.path for x in ins} <= {'socket::Socket::responded'}, 'WHO', 'socket::Socket.transactions', 'the pending-exchange map is inserted into only by Socket::responded',
              detail='%s' % ins)


def rule_routers(ctx, res):
    ws = ctx.field_writes(r'^table::RoutingTable$', 'routers')
    writers = {b.path for b, _, _ in ws}
    res.check(writers <= {'action::bootstrap::TableBootstrapInner::run::{closure#0}'} and ws, 'WHO', 'table::RoutingTable.routers',
              'the router set is written only by the bootstrap task (from resolved router names)', detail='%s' % sorted(writers))
    for b, blk, st in ws:
        rv = st['rv']
        # value: router_addresses.clone()
    mb = ctx.mut_borrows_of_field(r'^table::RoutingTable$', 'routers')
    res.check(not mb, 'WHO', 'table::RoutingTable.routers', 'no &mut to the router set escapes', detail='%s' % [(b.path, s['sp']) for b, _, s in mb], key='routers-mutborrow')


def run(ctx, res):
    d = common.Dispatcher(ctx)
    res.touch(d.body)
    common.rule_closed_world(ctx, res)
    common.rule_who_admits(ctx, res)
    common.rule_admission_filter(ctx, res)
    common.rule_find_node_identity(ctx, res)
    gate_inside = rule_response_routing(ctx, res)
    rule_tid_gate(ctx, res, d, gate_inside=bool(gate_inside))
    from . import c19
    c19.rule_prefix_extraction(ctx, res)
    rule_add_nodes_shape(ctx, res)
    rule_bootstrap_exchange(ctx, res)
    rule_routers(ctx, res)
    # query arms never admit (zero-count rule; positive instance lives in the fixture / seeded patches)
    from . import c10
    c10.rule_queries_mark_only(ctx, res)
    common.rule_request_mark_sites(ctx, res)
