"""C13 - KRPC wire codec conforms to BEP5/BEP32 and round-trips every message (partial: schema).

Decides, from the expanded-AST serde attributes, the evaluated serde FIELDS / VARIANTS tables and the
MIR of the derived and hand-written (de)serializers: wire key tables equal the BEP tables; the
serializer writes exactly the keys the deserializer reads; the order of the untagged query variants
cannot let an earlier variant capture a later one's message; the q/a cross-check is the diagonal;
compact sizes 6/18 (peers) and 26/38 (nodes); multiple-of-entry-size rejection; big-endian ports on
both sides; 20-byte ids; the implied_port / want tables; optional response keys default and are
skipped when empty; no deny_unknown_fields; errors are [code, text] lists. Byte-exact canonical
bencoding and round-trip for every value (library behaviour) are NOT decided."""
import re
from . import lib, common
from .lib import (Sym, Table, BOOL, Lost, literal, term_int, strip_transparent, is_field_of_param, option_is_some,
                  agg_variant, field_chain, root_of, is_param, find_calls, fmt, term_walk)

EXPLANATION = __doc__
ASSUMPTIONS = ['serde derive semantics for rename / default / flatten / untagged / with', 'torrust-serde-bencode sorts dictionary keys and encodes integers/byte strings canonically',
               'round-trip equality over all values is outside this check']

SPEC = {
    'envelope': ['t', 'y', 'q', 'a', 'r', 'e'],
    'types': ['q', 'r', 'e'],
    'methods': ['ping', 'find_node', 'get_peers', 'announce_peer'],
    'PingRequest': (['id'], []),
    'FindNodeRequest': (['id', 'target'], ['want']),
    'GetPeersRequest': (['id', 'info_hash'], ['want']),
    'AnnouncePeerRequest': (['id', 'info_hash', 'port', 'token'], ['implied_port']),
    'Response': (['id'], ['values', 'nodes', 'nodes6', 'token']),
}


def attrs_of(ctx, path):
    a = None
    for x in ctx.f.j['attrs']:
        if x['path'] == path and x['kind'] in ('struct', 'enum') and not x['path'].split('::')[-1].startswith('__'):
            a = x
    if a is None:
        raise Lost('type %s not found in the expanded AST' % path)
    return a


def serde_args(attr_list):
    """{'rename': 'nodes', 'with': 'compact::nodes_v4', 'default': True, ...} from #[serde(..)] attributes"""
    out = {}
    for a in attr_list:
        m = re.match(r'#\[serde\((.*)\)\]$', a.replace('\n', ' ').strip(), re.S)
        if not m:
            continue
        for part in re.split(r',\s*(?![^"]*"\s*(?:,|$))', m.group(1)):
            part = part.strip()
            if not part:
                continue
            if '=' in part:
                k, v = part.split('=', 1)
                out[k.strip()] = v.strip().strip('"')
            else:
                out[part] = True
    return out


def wire_fields(ctx, path):
    """(required keys, optional keys, per-key serde args) of a struct, flatten expanded"""
    a = attrs_of(ctx, path)
    req, opt, args = [], [], {}
    for f in a['fields']:
        sa = serde_args(f['attrs'])
        if sa.get('flatten'):
            # flattened through `with = "port"`: the Wrapper struct of that module
            w = attrs_of(ctx, 'message::%s::Wrapper' % sa.get('with', 'port'))
            for wf in w['fields']:
                wsa = serde_args(wf['attrs'])
                k = wsa.get('rename', wf['name'])
                (opt if wsa.get('default') else req).append(k)
                args[k] = wsa
            continue
        k = sa.get('rename', f['name'])
        (opt if sa.get('default') else req).append(k)
        args[k] = sa
    return req, opt, args


def const_list(ctx, type_name, which):
    for path, c in ctx.f.consts.items():
        if path.endswith('::' + which) and ('for message::%s>' % type_name in path or 'for message::%s<' % type_name in path):
            return c['value']
    for c in ctx.f.j['consts']:
        if c['path'].endswith('::' + which) and ('for message::%s>' % type_name in c['path'] or 'for message::%s<' % type_name in c['path']):
            return c['value']
    return None


def body_strings(b):
    out = []

    def walk(o):
        if isinstance(o, dict):
            if o.get('k') == 'const' and 'bytes' in o:
                out.append(o['bytes'])
            for v in o.values():
                walk(v)
        elif isinstance(o, list):
            for v in o:
                walk(v)
    for blk in b.blocks:
        if blk['cleanup']:
            continue
        walk(blk['stmts'])
        walk(blk['term'])
    return out


def find_body(ctx, rx):
    r = re.compile(rx)
    hits = [b for b in ctx.f.body_list if b.kind != 'stolen' and r.search(b.path)]
    if len(hits) != 1:
        raise Lost('expected one body matching %s, found %d' % (rx, len(hits)))
    return hits[0]


def rule_key_tables(ctx, res):
    # envelope
    req, opt, args = wire_fields(ctx, 'message::RawMessage')
    res.check(sorted(req + opt) == sorted(SPEC['envelope']), 'SCHEMA', 'message::RawMessage', 'envelope keys are t, y, q, a, r, e', detail=str(req + opt))
    res.check(const_list(ctx, 'RawMessage', 'FIELDS') == SPEC['envelope'], 'SCHEMA', 'message::RawMessage', 'the deserializer\'s key table is [t, y, q, a, r, e]', detail=str(const_list(ctx, 'RawMessage', 'FIELDS')), key='envelope-fields')
    res.check(const_list(ctx, 'RawMessageType', 'VARIANTS') == SPEC['types'], 'SCHEMA', 'message::RawMessageType', 'y is one of q, r, e', detail=str(const_list(ctx, 'RawMessageType', 'VARIANTS')))
    res.check(const_list(ctx, 'RawRequestType', 'VARIANTS') == SPEC['methods'], 'SCHEMA', 'message::RawRequestType', 'q is one of ping, find_node, get_peers, announce_peer', detail=str(const_list(ctx, 'RawRequestType', 'VARIANTS')))
    for ty in ('PingRequest', 'FindNodeRequest', 'GetPeersRequest', 'AnnouncePeerRequest', 'Response'):
        req, opt, args = wire_fields(ctx, 'message::' + ty)
        wreq, wopt = SPEC[ty]
        res.check(sorted(req) == sorted(wreq) and sorted(opt) == sorted(wopt), 'SCHEMA', 'message::' + ty, 'required keys %s, optional keys %s (BEP5/BEP32)' % (wreq, wopt), detail='required %s optional %s' % (req, opt), key='keys')
        # S2: serializer writes exactly these keys; deserializer reads exactly these keys
        sb = find_body(ctx, r'Serialize for message::%s>::serialize$' % ty)
        res.touch(sb)
        skeys = [s for s in body_strings(sb) if s != ty]
        if ty == 'AnnouncePeerRequest':
            wb = find_body(ctx, r'Serialize for message::port::Wrapper>::serialize$')
            skeys += [s for s in body_strings(wb) if s != 'Wrapper']
        dk = const_list(ctx, ty, 'FIELDS')
        if ty == 'AnnouncePeerRequest':
            vb = find_body(ctx, r"for message::AnnouncePeerRequest>::deserialize::__FieldVisitor as .*Visitor<'de>>::visit_str$")
            dk = sorted(set(body_strings(vb))) + (const_list(ctx, 'port::Wrapper', 'FIELDS') or [])
        res.check(set(skeys) == set(req + opt), 'SCHEMA', 'message::' + ty, 'the serializer writes exactly the keys %s' % sorted(req + opt), detail=str(sorted(set(skeys))), key='ser-keys')
        res.check(dk is not None and set(dk) == set(req + opt), 'SCHEMA', 'message::' + ty, 'the deserializer reads exactly the keys %s' % sorted(req + opt), detail=str(dk), key='de-keys')
    # S11: no deny_unknown_fields on any wire type
    deny = [x['path'] for x in ctx.f.j['attrs'] if x['path'].startswith('message') and any('deny_unknown_fields' in a for a in x['attrs'])]
    res.check(not deny, 'SCHEMA', 'message::*', 'no wire type rejects unknown keys (v, ip, ro, ... are ignored)', detail=str(deny))
    # S10: optional response keys: default + skipped when empty
    req, opt, args = wire_fields(ctx, 'message::Response')
    want_skip = {'values': 'Vec::is_empty', 'nodes': 'Vec::is_empty', 'nodes6': 'Vec::is_empty', 'token': 'Option::is_none'}
    ok = all(args.get(k, {}).get('default') and args.get(k, {}).get('skip_serializing_if') == v for k, v in want_skip.items())
    res.check(ok, 'SCHEMA', 'message::Response', 'values / nodes / nodes6 / token default when absent and are omitted when empty', detail=str({k: args.get(k) for k in want_skip}))
    withs = {k: args.get(k, {}).get('with') for k in ('values', 'nodes', 'nodes6', 'token')}
    res.check(withs == {'values': 'compact::values', 'nodes': 'compact::nodes_v4', 'nodes6': 'compact::nodes_v6', 'token': 'serde_bytes'}, 'SCHEMA', 'message::Response',
              'nodes uses the IPv4 compact codec, nodes6 the IPv6 one, values the compact peer list, token a byte string', detail=str(withs))
    for ty in ('FindNodeRequest', 'GetPeersRequest'):
        _, _, a2 = wire_fields(ctx, 'message::' + ty)
        res.check(a2.get('want', {}).get('with') == 'want' and a2['want'].get('default') and a2['want'].get('skip_serializing_if') == 'Option::is_none', 'SCHEMA', 'message::' + ty, 'want is optional, a list of strings, omitted when absent', detail=str(a2.get('want')), key='want-attr')
    _, _, a3 = wire_fields(ctx, 'message::AnnouncePeerRequest')
    res.check(a3.get('token', {}).get('with') == 'serde_bytes' and a3.get('implied_port', {}).get('skip_serializing_if') == 'is_false' and a3['implied_port'].get('deserialize_with') == 'deserialize_bool', 'SCHEMA',
              'message::AnnouncePeerRequest', 'token is a byte string; implied_port is omitted when false and read as an integer flag', detail=str(a3))
    ih = attrs_of(ctx, 'info_hash::InfoHash')
    res.check(serde_args(ih['fields'][0]['attrs']).get('with') == 'byte_array', 'SCHEMA', 'info_hash::InfoHash', 'ids are (de)serialized through byte_array (20-byte byte string)')
    env = wire_fields(ctx, 'message::RawMessage')[2]
    res.check(env.get('t', {}).get('with') == 'serde_bytes', 'SCHEMA', 'message::RawMessage', 't is a byte string of any length')


def rule_untagged_order(ctx, res):
    a = attrs_of(ctx, 'message::Request')
    res.check(any('untagged' in x for x in a['attrs']), 'SCHEMA', 'message::Request', 'query arguments are an untagged choice between the four argument shapes')
    order = [v['name'] for v in a['variants']]
    shapes = {}
    for v in a['variants']:
        ty = v['fields'][0]['ty']
        req, opt, _ = wire_fields(ctx, 'message::' + ty)
        shapes[v['name']] = (set(req), set(opt))
    bad = []
    for i, x in enumerate(order):
        for y in order[i + 1:]:
            if shapes[x][0] <= (shapes[y][0] | shapes[y][1]):
                bad.append('%s (listed first) would capture a %s message' % (x, y))
    res.check(not bad and len(order) == 4, 'SCHEMA', 'message::Request', 'variant order %s: no earlier variant\'s required keys are contained in a later variant\'s keys' % order, detail='; '.join(bad))


def rule_diagonal(ctx, res):
    b = find_body(ctx, r'^<message::Message as std::convert::TryFrom<message::RawMessage<.*>>>::try_from$')
    res.touch(b)
    s = Sym(b)
    s.run()
    res.paths += len(s.paths)
    rt = common.enum_variants(ctx, 'message::RawRequestType')
    rq = common.enum_variants(ctx, 'message::Request')
    mt = common.enum_variants(ctx, 'message::RawMessageType')
    irt = {v: k for k, v in rt.items()}
    irq = {v: k for k, v in rq.items()}
    imt = {v: k for k, v in mt.items()}

    def dom(v, table):
        if isinstance(v, tuple) and v[0] == 'not':
            return {k for k, d in table.items() if d not in v[1]}
        return {k for k, d in table.items() if d == v}

    def classify(lit, c):
        rel, a, b2, truth = lit
        if rel == 'variant':
            t = fmt(a)
            if field_chain(a)[-1:] == ['message_type']:
                return ('y', dom(b2, mt))
            if 'request_type' in t and 'ok_or' in t:
                if field_chain(a)[-1:] != ['0'] or True:
                    pass
            ca = [x for x in term_walk(a) if isinstance(x, tuple) and x and x[0] == 'field' and x[2] in ('request_type', 'request', 'response', 'error')]
            # normal form (`ok_or(..)?`, `let .. else`, `match` all read as a match on the Option field itself)
            a0 = strip_transparent(a)
            fc0 = field_chain(a0)
            if is_param(root_of(a0)) and fc0 and fc0[-1] in ('request_type', 'request', 'response', 'error'):
                return ('has_' + fc0[-1], option_is_some(b2))
            if is_param(root_of(a0)) and len(fc0) >= 2 and fc0[-1] == '0' and fc0[-2] in ('request_type', 'request'):
                return ('q', dom(b2, rt)) if fc0[-2] == 'request_type' else ('a', dom(b2, rq))
            if a[0] == 'call' and a[1].endswith('::branch'):
                if agg_variant(a[2][0]) == 'Err':
                    return 'infeasible' if b2 == 0 else None   # `Err(..)?` always breaks
                src = ca[0][2] if ca else '?'
                return ('has_' + src, b2 == 0)
            # the (request_type, request) tuple match
            fc = field_chain(a)
            if ca and ca[0][2] == 'request_type' and find_calls(a, '::branch'):
                return ('q', dom(b2, rt))
            if ca and ca[0][2] == 'request' and find_calls(a, '::branch'):
                return ('a', dom(b2, rq))
        return None

    def outcome(p):
        r = p.ret
        if agg_variant(r) == 'Ok':
            body = r[2].get('0')[2].get('body')
            return 'Ok:' + str(agg_variant(body))
        return 'Err'      # (a plain Err or `?` on one)

    tab = Table.build(s.complete_paths(), classify, outcome)

    def expected(v):
        if v['y'] == 'Request':
            if not v['has_request_type'] or not v['has_request']:
                return 'Err'
            return 'Ok:Request' if v['q'] == v['a'] else 'Err'
        if v['y'] == 'Response':
            return 'Ok:Response' if v['has_response'] else 'Err'
        return 'Ok:Error' if v['has_error'] else 'Err'

    doms = {'y': list(mt), 'has_request_type': BOOL, 'has_request': BOOL, 'has_response': BOOL, 'has_error': BOOL, 'q': list(rt), 'a': list(rq)}
    bad, n = tab.compare(doms, expected)
    res.paths += n
    res.check(not bad, 'TABLE', b.path, 'decode: a query needs q and a and q must name the shape of a (diagonal); a response needs r; an error needs e; anything else is rejected', site=b.span,
              detail='; '.join('%s -> got %s want %s' % x for x in bad[:2]))
    fb = find_body(ctx, r"^<message::RawRequestType as std::convert::From<&'a message::Request>>::from$")
    res.touch(fb)
    fs = Sym(fb)
    fs.run()
    got = {}
    for p in fs.complete_paths():
        k = None
        for c in p.conds:
            rel, a, b2, truth = literal(c)
            if rel == 'variant' and is_param(root_of(a), 'value'):
                k = irq.get(b2)
        got[k] = agg_variant(p.ret)
    res.check(got == {k: k for k in rq}, 'TABLE', fb.path, 'encode: q is the name of the argument shape (diagonal)', detail=str(got))
    # encode side: RawMessage::from(&Message) fills exactly the fields of the kind
    eb = find_body(ctx, r"^<message::RawMessage<'a> as std::convert::From<&'a message::Message>>::from$")
    res.touch(eb)
    es = Sym(eb)
    es.run()
    mb = common.enum_variants(ctx, 'message::MessageBody')
    imb = {v: k for k, v in mb.items()}
    okf = bool(es.complete_paths())
    for p in es.complete_paths():
        kind = None
        for c in p.conds:
            rel, a, b2, truth = literal(c)
            if rel == 'variant' and field_chain(a)[-1:] == ['body']:
                kind = imb.get(b2)
        f = p.ret[2]
        filled = {k for k in ('request_type', 'request', 'response', 'error') if agg_variant(f.get(k)) == 'Some'}
        want = {'Request': {'request_type', 'request'}, 'Response': {'response'}, 'Error': {'error'}}.get(kind)
        if filled != want or agg_variant(f.get('message_type')) != kind:
            okf = False
        if field_chain(strip_transparent(f.get('transaction_id')[2].get('0') if f.get('transaction_id')[0] == 'agg' else f.get('transaction_id')))[-1:] != ['transaction_id']:
            okf = False
    res.check(okf, 'TABLE', eb.path, 'encode: y and exactly the matching one of a+q / r / e are filled; t is the message\'s transaction id')
    # Option fields of the envelope are not serialized as null: serde_bencode skips None (trusted) - presence is by Option


def _want_flags_automaton(vb, vs, wv):
    """want decoder keeping two `bool` flags: returns the transition table {(state, tag): {new state}} it implements over the
    states None / V4 / V6 / Both, or None when the function is not of that shape.
    flags start false; a recognised tag sets exactly one flag and never clears one; after the loop (f1, f2) is mapped to a state"""
    flags = [l for l, d in enumerate(vb.locals) if d.get('ty') == 'bool' and d.get('user') and d.get('mut') and l > vb.arg_count]
    if len(flags) != 2:
        return None
    # initial values: every assignment outside the loop is the constant false
    vs.loop_info()
    inloop = set()
    for comp in getattr(vs, '_loop_bodies', []):
        inloop |= set(comp)
    for l in flags:
        for bi, blk in enumerate(vb.blocks):
            for st in blk['stmts']:
                if st['k'] == 'assign' and st['place']['l'] == l and not st['place']['p'] and bi not in inloop:
                    rv = st['rv']
                    ok0 = (rv['k'] == 'use' and rv['op'].get('k') == 'const' and rv['op'].get('int') == 0) or \
                          (rv['k'] == 'use' and rv['op'].get('k') in ('copy', 'move') and rv['op']['place'].get('p'))     # `let (mut a, mut b) = (false, false)`
                    if not ok0:
                        return None
    def flag_of(t):
        t = strip_transparent(t)
        return t[1] if isinstance(t, tuple) and t and t[0] == 'loopvar' and t[1] in flags else None
    # state mapping after the loop
    final = {}
    for p in vs.complete_paths():
        if agg_variant(p.ret) != 'Ok':
            continue
        val = {}
        for c in p.conds:
            rel, a, b2, truth = literal(c)
            if rel == 'bool' and flag_of(a) is not None and truth is not None:
                val[flag_of(a)] = bool(truth)
        if set(val) != set(flags):
            return None
        o = p.ret[2].get('0')
        stt = 'None' if agg_variant(o) == 'None' else agg_variant(o[2].get('0')) if agg_variant(o) == 'Some' else '?'
        final.setdefault(tuple(val[l] for l in flags), set()).add(stt)
    if len(final) != 4 or any(len(v) != 1 for v in final.values()):
        return None
    state = {k: next(iter(v)) for k, v in final.items()}
    if sorted(state.values()) != ['Both', 'None', 'V4', 'V6'] or state[(False, False)] != 'None' or state[(True, True)] != 'Both':
        return None
    # transitions of one iteration
    step = {}
    for p in vs.paths:
        if p.end != 'loop':
            continue
        word = None
        for c in p.conds:
            rel, a, b2, truth = literal(c)
            if rel == 'eq' and isinstance(b2, tuple) and b2[0] == 'str' and find_calls(a, '::trim') and truth:
                word = b2[1]
        eff = []
        for l in flags:
            t = p.env.get(l)
            if flag_of(t) == l:
                eff.append('keep')
            elif term_int(t) == 1:
                eff.append('set')
            else:
                return None            # cleared or computed: not this shape
        if word is None:
            if eff != ['keep', 'keep']:
                return None
            continue
        step.setdefault(word.lower(), set()).add(tuple(eff))
    if any(len(v) != 1 for v in step.values()):
        return None
    trans = {}
    for word, effs in step.items():
        eff = next(iter(effs))
        for cur, name in state.items():
            new = tuple(True if e == 'set' else c for e, c in zip(eff, cur))
            trans.setdefault((name, word), set()).add(state[new])
    return trans


def rule_compact(ctx, res):
    c = {n: ctx.f.const_value('compact::' + n) for n in ('SOCKET_ADDR_V4_LEN', 'SOCKET_ADDR_V6_LEN')}
    nid = ctx.f.const_value('info_hash::NODE_ID_LEN')
    res.check(c == {'SOCKET_ADDR_V4_LEN': 6, 'SOCKET_ADDR_V6_LEN': 18} and nid == 20 and ctx.f.const_value('info_hash::INFO_HASH_LEN') == 20, 'CONST', 'compact::SOCKET_ADDR_*_LEN', 'compact peers are 6 / 18 bytes, ids 20 bytes (nodes: 26 / 38)', detail=str(c))
    # nodes_v4 / nodes_v6 instantiate the generic codec with 6 / 18
    for mod, ln in (('nodes_v4', 'SOCKET_ADDR_V4_LEN'), ('nodes_v6', 'SOCKET_ADDR_V6_LEN')):
        for fn in ('serialize', 'deserialize'):
            b = ctx.body('compact::%s::%s' % (mod, fn))
            res.touch(b)
            ok = False
            for i, t in b.calls():
                cc = lib.callee(t)
                if cc and cc['path'] == 'compact::nodes::' + fn:
                    ok = ('compact::' + ln) in cc['full'] or ('{ super::%s }' % ln) in cc['full'] or str(c[ln]) in cc['full'].split(',')[-1]
            res.check(ok, 'SCHEMA', b.path, 'instantiates the generic node codec with %s' % ln, key='instantiation')
    # generic decoder: chunks_exact(20 + ADDR_LEN), non-empty remainder -> Err
    b = ctx.body('compact::nodes::deserialize')
    res.touch(b)
    s = Sym(b)
    s.run()
    ok = bool(s.complete_paths())
    n_err = 0
    for p in s.complete_paths():
        rem = [literal(c)[3] for c in p.conds if literal(c)[0] == 'bool' and literal(c)[1][0] == 'call' and literal(c)[1][1].endswith('::is_empty') and find_calls(literal(c)[1], 'remainder')]
        # the same test as `buffer.len() % entry_len == 0`
        for c in p.conds:
            l = literal(c)
            if l[0] == 'eq' and l[3] is not None:
                for x, y in ((l[1], l[2]), (l[2], l[1])):
                    if isinstance(x, tuple) and x and x[0] == 'bin' and x[1] == 'Rem' and find_calls(x[2], '::len') and isinstance(y, tuple) and term_int(y) == 0:
                        dv = strip_transparent(x[3])
                        if dv[0] == 'bin' and dv[1].replace('WithOverflow', '') == 'Add' and term_int(dv[2]) == 20:
                            rem.append(bool(l[3]))
        ce = find_calls(p.ret, 'chunks_exact') or [e for e in p.effects if e[0] == 'call' and e[1] and e[1].endswith('chunks_exact')]
        if not rem:
            if agg_variant(p.ret) == 'Ok':
                ok = False
            continue
        if rem[-1] is False:
            n_err += 1
            if agg_variant(p.ret) != 'Err':
                ok = False
        else:
            if agg_variant(p.ret) != 'Ok':
                ok = False
    sizes = []
    for p in s.paths:
        for e in p.effects:
            if e[0] == 'call' and e[1] and e[1].endswith('chunks_exact'):
                sz = e[2][1]
                sizes.append(fmt(sz))
                if not (sz[0] == 'bin' and sz[1] == 'Add' and term_int(sz[2]) == 20):
                    ok = False
    res.check(ok and n_err >= 1 and sizes, 'MPT', b.path, 'node lists are split into entries of 20 + ADDR_LEN bytes; a non-empty remainder is rejected', detail=str(sizes[:1]))
    # an entry: id = first 20 bytes of the chunk, address = decode_socket_addr(rest of the chunk) - whether the entries are
    # built by a `filter_map` closure or in a loop over the chunks, and whether the chunk is cut with ranges or `split_at`
    def part_of_chunk(t):
        """('head', n) / ('tail', n) when the term is the first n bytes / everything after the first n bytes of something"""
        for x in term_walk(t):
            if isinstance(x, tuple) and x and x[0] == 'agg' and isinstance(x[1], str):
                if x[1].startswith('std::ops::RangeTo::') and term_int(x[2].get('end')) is not None:
                    return ('head', term_int(x[2].get('end')))
                if x[1].startswith('std::ops::RangeFrom::') and term_int(x[2].get('start')) is not None:
                    return ('tail', term_int(x[2].get('start')))
            if isinstance(x, tuple) and x and x[0] == 'field' and x[2] in ('0', '1') and isinstance(x[1], tuple) and x[1][0] == 'call' and x[1][1].split('::')[-1] == 'split_at':
                n = term_int(strip_transparent(x[1][2][1]))
                if n is not None:
                    return ('head' if x[2] == '0' else 'tail', n)
            # `let (a, b) = chunk.split_at_checked(n)?` / `let Some((a, b)) = chunk.split_at_checked(n)`
            if isinstance(x, tuple) and len(x) == 3 and x[0] == 'field' and x[2] in ('0', '1') and isinstance(x[1], tuple) and len(x[1]) == 3 and x[1][0] == 'field' and x[1][2] == '0' \
                    and isinstance(x[1][1], tuple) and x[1][1][0] == 'downcast' and x[1][1][2] in ('Some', 'Continue'):
                inner = strip_transparent(x[1][1][1])
                if x[1][1][2] == 'Continue' and isinstance(inner, tuple) and inner[0] == 'call' and inner[1].endswith('Try>::branch'):
                    inner = strip_transparent(inner[2][0])
                if isinstance(inner, tuple) and inner[0] == 'call' and inner[1].split('::')[-1] == 'split_at_checked' and inner[1].startswith('core::slice::'):
                    n = term_int(strip_transparent(inner[2][1]))
                    if n is not None:
                        return ('head' if x[2] == '0' else 'tail', n)
        return None
    handles = []
    cbody = ctx.f.body('compact::nodes::deserialize::{closure#0}')
    if cbody is None:
        # the per-entry decoder is a named function handed to filter_map / map
        for p in s.paths:
            for e in p.effects:
                if e[0] == 'call' and e[1] and e[1].split('::')[-1] in ('filter_map', 'map') and len(e[2]) == 2:
                    fv = strip_transparent(e[2][1])
                    if isinstance(fv, tuple) and fv and fv[0] in ('fn', 'closure') and ctx.f.body(fv[1]) is not None:
                        cbody = ctx.f.body(fv[1])
    entry_anchor = b.path
    if cbody is not None:
        res.touch(cbody)
        cs = Sym(cbody)
        cs.run()
        entry_anchor = cbody.path
        for p in cs.complete_paths():
            if agg_variant(p.ret) == 'Some':
                handles.append(p.ret[2].get('0'))
    for p in s.paths:
        for e in p.effects:
            if e[0] == 'call' and e[1] and e[1].split('::')[-1] == 'push':
                v = strip_transparent(e[2][1]) if e[2][1][0] != 'agg' else e[2][1]
                if isinstance(v, tuple) and v[0] == 'agg' and v[1].startswith('node::NodeHandle'):
                    handles.append(v)
            if e[0] == 'call' and e[1] == 'node::NodeHandle::new' and find_calls(('x', e[2]), 'decode_socket_addr'):
                handles.append(('agg', 'node::NodeHandle::NodeHandle', lib.FrozenDict((('id', e[2][0]), ('addr', e[2][1]))), None))
    okc = bool(handles)
    for nh in handles:
        if not (isinstance(nh, tuple) and nh[0] == 'agg'):
            okc = False
            continue
        i_, a_ = nh[2].get('id'), nh[2].get('addr')
        if i_ is None or a_ is None or part_of_chunk(i_) != ('head', 20) or part_of_chunk(a_) != ('tail', 20) or not find_calls(a_, 'decode_socket_addr'):
            okc = False
    res.check(okc, 'TABLE', entry_anchor, 'an entry is id = bytes[..20], address = decode_socket_addr(bytes[20..])', key='node-entry')
    sb = ctx.body('compact::nodes::serialize')
    res.touch(sb)
    ss = Sym(sb)
    ss.run()
    oks = False
    okerr = False
    for p in ss.paths:
        ext = [e for e in p.effects if e[0] == 'call' and e[1] and e[1].endswith('::extend')]
        if p.end == 'loop' and len(ext) == 2:
            first, second = ext[0][2][1], ext[1][2][1]
            oks = 'id' in field_chain(strip_transparent(first)) and bool(find_calls(second, 'encode_socket_addr'))
        if p.end == 'return' and agg_variant(p.ret) is None and p.ret[0] == 'call' and p.ret[1].endswith('custom'):
            okerr = True
        for c in p.conds:
            rel, a, b2, truth = literal(c)
            if rel == 'eq' and find_calls(a, '::len') and find_calls(a, 'encode_socket_addr'):
                okerr = True
    res.check(oks and okerr, 'TABLE', sb.path, 'an entry is written as id bytes followed by the compact address; an address of the wrong family is an error')
    # decode_socket_addr: 6 -> (4, 2), 18 -> (16, 2), port big-endian; encode: octets then port big-endian
    db = ctx.body('compact::decode_socket_addr')
    res.touch(db)
    ds = Sym(db)
    ds.run()
    fam = {}
    for p in ds.complete_paths():
        # the length the path has established: `len == 6` (comparison) or the arm `6 =>` of a match on the length
        lens = []
        # `let (ip, port) = src.split_last_chunk::<2>()?`: the port is the trailing chunk, the address everything before it;
        # a test on `ip.len()` is then a test on the whole length minus the chunk size
        tail_n = None
        head_cut = None
        for e in p.effects:
            if e[0] == 'call' and e[1] and e[1].split('::')[-1] == 'split_last_chunk' and is_param(strip_transparent(e[2][0]), 'src') and len(e) > 4 and e[4]:
                m_ = re.search(r'split_last_chunk::<(\d+)>$', e[4].get('full') or '')
                tail_n = int(m_.group(1)) if m_ else None
        for c in p.conds:
            l = literal(c)
            if l[0] == 'eq' and find_calls(l[1], '::len'):
                lens.append((term_int(l[2]), l[3]))
                la = strip_transparent(l[1])
                if tail_n is not None and l[3] and term_int(l[2]) is not None and term_int(l[2]) >= tail_n and isinstance(la, tuple) and la[0] == 'call' \
                        and la[1].split('::')[-1] == 'len' and is_param(strip_transparent(la[2][0]), 'src'):
                    head_cut = term_int(l[2]) - tail_n
            elif l[0] == 'int' and isinstance(l[1], tuple) and l[1][0] == 'call' and l[1][1].split('::')[-1] == 'len' and isinstance(l[2], int):
                arg = strip_transparent(l[1][2][0])
                if tail_n is not None and find_calls(arg, 'split_last_chunk') and field_chain(arg)[-1:] == ['0']:
                    lens.append((l[2] + tail_n, True))
                    head_cut = l[2]
                else:
                    lens.append((l[2], True))
                    if tail_n is not None and is_param(arg, 'src') and l[2] >= tail_n:
                        head_cut = l[2] - tail_n      # the whole length is tested: the head is everything but the trailing chunk
        if agg_variant(p.ret) == 'Some':
            v = p.ret[2].get('0')
            be = find_calls(v, 'from_be_bytes')
            rngs = [x for x in term_walk(v) if isinstance(x, tuple) and x and x[0] == 'agg' and x[1].startswith('std::ops::Range')]
            ends = sorted({term_int(x[2].get('end')) for x in rngs if x[2].get('end') is not None} | {term_int(x[2].get('start')) for x in rngs if x[2].get('start') is not None})
            # .. or `split_at(k)`: address = first k bytes, port = the rest
            for x in term_walk(v):
                if isinstance(x, tuple) and x and x[0] == 'call' and x[1].split('::')[-1] == 'split_at' and term_int(strip_transparent(x[2][1])) is not None:
                    ends = sorted(set(ends) | {term_int(strip_transparent(x[2][1]))})
            if head_cut is not None and not ends:
                # address = the head part converted as a whole, port = from_be_bytes(the trailing chunk)
                addr_from_head = any(isinstance(x, tuple) and x and x[0] == 'call' and x[1].split('::')[-1] in ('try_from', 'try_into') and find_calls(x, 'split_last_chunk')
                                     and field_chain(strip_transparent(x[2][0]))[-1:] == ['0'] for x in term_walk(v))
                port_from_tail = bool(be) and field_chain(strip_transparent(be[0][2][0]))[-1:] == ['1'] and bool(find_calls(be[0], 'split_last_chunk'))
                if addr_from_head and port_from_tail:
                    ends = [head_cut]
            true_len = [l for l, t in lens if t]
            fam[true_len[-1] if true_len else None] = (bool(be), ends, 'Ipv4Addr' in str(v) or '[u8; 4]' in str(v), 'Ipv6Addr' in str(v) or '[u8; 16]' in str(v))
    res.check(fam.get(6) == (True, [4], True, False) and fam.get(18) == (True, [16], False, True) and set(fam) == {6, 18}, 'TABLE', db.path,
              'compact address: 6 bytes -> IPv4 (4) + big-endian port, 18 bytes -> IPv6 (16) + big-endian port, other lengths rejected', detail=str(fam))
    eb = ctx.body('compact::encode_socket_addr')
    res.touch(eb)
    es = Sym(eb)
    es.run()
    oke = bool(es.complete_paths())
    APPEND = ('extend', 'extend_from_slice')

    def pieces(p):
        """the byte pieces the result is made of, in order: appended one after the other, or `[a, b].concat()`"""
        ext = [e[2][1] for e in p.effects if e[0] == 'call' and e[1] and e[1].split('::')[-1] in APPEND]
        if ext:
            return ext
        r = p.ret
        while isinstance(r, tuple) and r and r[0] in ('ref', 'deref', 'cast'):
            r = r[1]
        if isinstance(r, tuple) and r[0] == 'call' and r[1].split('::')[-1] == 'concat' and len(r[2]) == 1:
            a = r[2][0]
            while isinstance(a, tuple) and a and a[0] in ('ref', 'deref', 'cast'):
                a = a[1]
            if isinstance(a, tuple) and len(a) == 2 and a[0] == 'array':
                return list(a[1])
        return []
    for p in es.complete_paths():
        ext = pieces(p)
        if len(ext) != 2 or not find_calls(ext[0], '::octets') or not find_calls(ext[1], 'to_be_bytes') or not find_calls(ext[1], '::port'):
            oke = False
    res.check(oke, 'TABLE', eb.path, 'compact address = address octets followed by the big-endian port (sibling of from_be_bytes)')
    # .. and the family written is the family of the address given (an IPv6 socket address is 18 bytes whatever its
    # contents: BEP32 has no "mapped" short form, and the decoder gives back V6 only for 18 bytes)
    fams = {'V4': 0, 'V6': 1}

    def classify_e(lit, c):
        rel, a, b2, truth = lit
        if rel == 'variant':
            a0 = strip_transparent(a)
            direct = is_param(a0, 'addr') or (isinstance(a0, tuple) and a0[0] == 'call' and a0[1] == 'std::net::SocketAddr::ip' and is_param(strip_transparent(a0[2][0]), 'addr'))
            if direct:
                if isinstance(b2, tuple) and b2[0] == 'not':
                    return ('F', {k for k in fams if fams[k] not in b2[1]})
                return ('F', {k for k in fams if fams[k] == b2})
        if rel == 'bool' and isinstance(a, tuple) and a[0] == 'call' and a[1] in ('std::net::SocketAddr::is_ipv4', 'std::net::SocketAddr::is_ipv6') and is_param(strip_transparent(a[2][0]), 'addr'):
            v4 = (a[1].endswith('is_ipv4')) == bool(truth)
            return ('F', {'V4'} if v4 else {'V6'})
        if rel == 'bool' and term_int(a) is not None:
            return None
        raise lib.Lost('encode_socket_addr: unrecognised condition %s %s' % (rel, fmt(a)))

    def outcome_e(p):
        ext = pieces(p)
        if not ext:
            return 'no-octets'
        oc = find_calls(ext[0], '::octets')
        if len(oc) != 1:
            return 'no-octets'
        # the octets are those of the given address: only `ip()` accessors between the parameter and octets()
        recv = strip_transparent(oc[0][2][0])
        while isinstance(recv, tuple) and recv[0] == 'call' and recv[1] in ('std::net::SocketAddrV4::ip', 'std::net::SocketAddrV6::ip'):
            recv = strip_transparent(recv[2][0])
        if isinstance(recv, tuple) and recv[0] == 'field' and isinstance(recv[1], tuple) and recv[1][0] == 'downcast':
            base = strip_transparent(recv[1][1])
            if isinstance(base, tuple) and base[0] == 'call' and base[1] == 'std::net::SocketAddr::ip':
                base = strip_transparent(base[2][0])
            if is_param(base, 'addr'):
                return oc[0][1].split('::')[-2]
        return 'octets-of:' + fmt(recv)[:60]

    try:
        tab_e = lib.Table.build(es.complete_paths(), classify_e, outcome_e)
        bad_e, n_e = tab_e.compare({'F': ['V4', 'V6']}, lambda v: 'Ipv4Addr' if v['F'] == 'V4' else 'Ipv6Addr')
        res.check(not bad_e, 'TABLE', eb.path, 'the address family written is the family of the SocketAddr given: V4 -> its 4 octets, V6 -> its 16 octets (no canonicalisation)',
                  detail='; '.join('%s -> got %s want %s' % (v, g, e) for v, g, e in bad_e[:4]), key='encode-family')
    except lib.Lost as e:
        res.bad('TABLE', eb.path, 'the address family written is the family of the SocketAddr given', detail=str(e), key='encode-family')
    # values: each element a byte string through encode/decode_socket_addr
    vb = find_body(ctx, r"^<compact::values::deserialize::SocketAddrsVisitor as .*Visitor<'de>>::visit_seq$")
    res.touch(vb)
    vs = Sym(vb)
    vs.run()
    okv = any(p.end == 'loop' and any(e[0] == 'call' and e[1] == 'compact::decode_socket_addr' for e in p.effects) and any(e[0] == 'call' and e[1] and e[1].endswith('::push') for e in p.effects) for p in vs.paths)
    sv = ctx.body('compact::values::serialize')
    res.touch(sv)
    svs = Sym(sv)
    svs.run()
    okv2 = any(p.end == 'loop' and any(e[0] == 'call' and e[1] == 'compact::encode_socket_addr' for e in p.effects) and any(e[0] == 'call' and e[1] and e[1].endswith('serialize_element') for e in p.effects) for p in svs.paths)
    res.check(okv and okv2, 'TABLE', 'compact::values', 'values is a list of byte strings, one compact address each, both directions')
    # ids
    ib = ctx.body('info_hash::byte_array::deserialize')
    res.touch(ib)
    isym = Sym(ib)
    isym.run()
    # every Ok result is try_into::<[u8; 20]>() of the WHOLE decoded byte string (a conversion of a prefix / sub-slice would
    # accept longer strings)
    oki = False
    n_ok = 0
    for p in isym.complete_paths():
        if agg_variant(p.ret) != 'Ok':
            continue
        n_ok += 1
        ti = find_calls(p.ret, 'try_into') or find_calls(p.ret, 'try_from')
        good = False
        if len(ti) == 1:
            x = strip_transparent(ti[0][2][0])
            while isinstance(x, tuple) and x and x[0] == 'call' and x[1].split('::')[-1] in ('into_vec', 'as_slice', 'as_ref', 'deref', 'to_vec', 'into_boxed_slice', 'as_bytes', 'borrow'):
                x = strip_transparent(x[2][0])
            # .. which is the successfully deserialized ByteBuf / byte slice itself
            good = (isinstance(x, tuple) and x[0] == 'field' and x[2] == '0' and isinstance(x[1], tuple) and x[1][0] == 'downcast' and bool(find_calls(x, '::deserialize'))
                    and not find_calls(x, '::get') and not find_calls(x, '::index') and not find_calls(x, 'split') and not find_calls(x, '::take') and not find_calls(x, 'first_chunk'))
        if not good:
            oki = False
            break
        oki = True
    adt = ctx.f.adts.get('info_hash::InfoHash')
    fty = adt['variants'][0]['fields'][0].get('ty_norm') if adt else None
    res.check(oki and fty == '[u8; 20]', 'TYPE', ib.path, 'an id is a byte string converted into [u8; 20]; other lengths are rejected', detail=str(fty))


def rule_port_and_want(ctx, res):
    # port encode
    b = ctx.body('message::port::serialize')
    res.touch(b)
    s = Sym(b)
    s.run()
    ok = bool(s.paths)
    seen = False
    states = {}

    def field_value(t, state):
        """value of a Wrapper field when *port is `state`: 'payload' | int | '?'"""
        t = strip_transparent(t)
        k = term_int(t)
        if k is not None:
            return k
        if t[0] == 'call' and t[1].endswith('::is_none') and is_param(strip_transparent(t[2][0]), 'port'):
            return int(state == 'None')
        if t[0] == 'call' and t[1].endswith('::is_some') and is_param(strip_transparent(t[2][0]), 'port'):
            return int(state == 'Some')
        if t[0] == 'call' and t[1].endswith('::unwrap_or') and is_param(strip_transparent(t[2][0]), 'port'):
            return 'payload' if state == 'Some' else term_int(t[2][1])
        if t[0] == 'field' and t[2] == '0' and isinstance(t[1], tuple) and t[1][0] == 'downcast' and t[1][2] == 'Some' and is_param(strip_transparent(t[1][1]), 'port'):
            return 'payload' if state == 'Some' else '?'
        return '?'
    for p in s.paths:
        st = None
        for c in p.conds:
            rel, a, b2, truth = literal(c)
            if rel == 'variant' and is_param(strip_transparent(a), 'port'):
                st = 'Some' if option_is_some(b2) else 'None'
        for e in p.effects:
            if e[0] == 'call' and e[1] and e[1].endswith('Wrapper>::serialize') or (e[0] == 'call' and e[1] and 'Wrapper' in e[1] and e[1].endswith('::serialize')):
                w = e[2][0]
                while isinstance(w, tuple) and w[0] in ('ref', 'deref'):
                    w = w[1]
                if w[0] == 'agg':
                    seen = True
                    for state in ([st] if st else ['Some', 'None']):
                        states.setdefault(state, set()).add((field_value(w[2].get('implied_port'), state), field_value(w[2].get('port'), state)))
    ok = states == {'Some': {(0, 'payload')}, 'None': {(1, 0)}}
    res.check(ok and seen, 'TABLE', b.path, 'encode: no port -> implied_port = 1 with port 0; Some(p) -> port p (implied_port omitted because false)')
    d = ctx.body('message::port::deserialize')
    res.touch(d)
    ds = Sym(d)
    ds.run()
    got = {}
    extra = []
    for p in ds.complete_paths():
        if agg_variant(p.ret) != 'Ok':
            continue
        imp = [literal(c)[3] for c in p.conds if literal(c)[0] == 'bool' and field_chain(literal(c)[1])[-1:] == ['implied_port']]
        # nothing else may decide the outcome (a test on the port value, say, would turn an explicit port into "implied")
        for c in p.conds:
            l = literal(c)
            if l[0] == 'bool' and field_chain(l[1])[-1:] == ['implied_port']:
                continue
            if l[0] == 'variant' and isinstance(l[1], tuple) and l[1][0] == 'call' and (l[1][1].endswith('Try>::branch') or l[1][1].endswith('::deserialize')):
                continue
            if l[0] == 'bool' and term_int(l[1]) is not None:
                continue
            extra.append('%s %s' % (l[0], fmt(l[1])[:60]))
        v = p.ret[2].get('0')
        out = agg_variant(v) if agg_variant(v) == 'None' else ('Some(port)' if field_chain(strip_transparent(v[2].get('0')))[-1:] == ['port'] else 'Some(?)')
        key = imp[-1] if imp else None
        if key in got and got[key] != out:
            out = 'ambiguous'
        got[key] = out
    if extra:
        got['other conditions'] = sorted(set(extra))[:3]
    res.check(got == {True: 'None', False: 'Some(port)'}, 'TABLE', d.path, 'decode: implied_port set -> no port (use the source port); otherwise Some(port)', detail=str(got))
    db = ctx.body('message::port::deserialize_bool')
    res.touch(db)
    dbs = Sym(db)
    dbs.run()
    okb = False
    for p in dbs.complete_paths():
        if agg_variant(p.ret) == 'Ok':
            rel, a, b2, truth = literal((p.ret[2].get('0'), ('not', (0,)), -1))
            # `num > 0` or `num != 0` (the same thing for an unsigned integer)
            okb = (rel == 'lt' and term_int(a) == 0 and truth is True) or \
                  (rel == 'eq' and truth is False and (term_int(a) == 0 or (isinstance(b2, tuple) and term_int(b2) == 0)))
    res.check(okb, 'TABLE', db.path, 'implied_port is an integer; non-zero means set')
    fb = ctx.body('message::port::is_false')
    fs = Sym(fb)
    fs.run()
    okf = all(p.ret[0] == 'un' and p.ret[1] == 'Not' for p in fs.complete_paths()) and fs.complete_paths()
    res.check(okf, 'TABLE', fb.path, 'is_false(b) = !b')
    # want encode
    wb = ctx.body('message::want::serialize')
    res.touch(wb)
    ws = Sym(wb)
    ws.run()
    res.paths += len(ws.paths)
    wv = common.enum_variants(ctx, 'message::Want')
    iwv = {v: k for k, v in wv.items()}
    table = {}
    # `for tag in TAGS { seq.serialize_element(tag)?; }`: a loop that emits every element of its source once, unfiltered
    emits_all = {}
    for p in ws.paths:
        if p.end != 'loop':
            continue
        nx = [(i, literal(c)) for i, c in enumerate(p.conds) if literal(c)[0] == 'variant' and isinstance(literal(c)[1], tuple) and literal(c)[1][0] == 'call'
              and literal(c)[1][1].split('::')[-1] == 'next' and option_is_some(literal(c)[2]) is True]
        if len(nx) != 1:
            continue
        i, lit = nx[0]
        site = lit[1][3]
        elem = ('field', ('downcast', lit[1], 'Some'), '0')
        later = [literal(c) for c in p.conds[i + 1:]]
        ses = [e for e in p.effects if e[0] == 'call' and e[1] and e[1].endswith('serialize_element')]
        plain = all(l[0] == 'variant' and isinstance(l[1], tuple) and l[1][0] == 'call' and l[1][1].endswith('::branch') and find_calls(l[1], 'serialize_element') for l in later)
        def bare(t):
            t = strip_transparent(t)
            while isinstance(t, tuple) and t and t[0] == 'call' and t[1].endswith('Bytes::new') and len(t[2]) == 1:
                t = strip_transparent(t[2][0])
            return t
        ok1 = plain and len(ses) == 1 and bare(ses[0][2][1]) == elem
        emits_all[site] = emits_all.get(site, True) and ok1
    for p in ws.complete_paths():
        if not (p.ret[0] == 'call' and p.ret[1].endswith('SerializeSeq::end')):
            continue   # `?` exits after a serializer error
        w = {'None', 'V4', 'V6', 'Both'}
        for c in p.conds:
            rel, a, b2, truth = literal(c)
            if rel == 'variant' and is_param(root_of(a), 'want'):
                if not field_chain(a):
                    w &= ({'V4', 'V6', 'Both'} if option_is_some(b2) else {'None'})
                else:
                    if isinstance(b2, tuple) and b2[0] == 'not':
                        w &= ({k for k in wv if wv[k] not in b2[1]} | {'None'})
                    else:
                        w &= {iwv.get(b2)}
        els = []
        for e in p.effects:
            if e[0] == 'call' and e[1] and e[1].endswith('serialize_element'):
                for x in term_walk(e[2][1]):
                    if isinstance(x, tuple) and x and x[0] == 'val':
                        els.append(x[1])
                    if isinstance(x, tuple) and x and x[0] == 'str':
                        els.append(x[1])
                    if isinstance(x, tuple) and len(x) == 2 and x[0] == 'named':
                        cv = ctx.f.const_value(x[1])          # a named byte-string constant (`const TAG_V4: &[u8] = b"n4"`)
                        if isinstance(cv, list):
                            els.append(str(cv))
        if not els:
            done = [literal(c)[1] for c in p.conds if literal(c)[0] == 'variant' and isinstance(literal(c)[1], tuple) and literal(c)[1][0] == 'call'
                    and literal(c)[1][1].split('::')[-1] == 'next' and option_is_some(literal(c)[2]) is False]
            if len(done) == 1 and emits_all.get(done[0][3]) is True:
                src = done[0][2][0]
                while isinstance(src, tuple) and src and (src[0] in ('ref', 'deref', 'cast') or (src[0] == 'call' and src[1].split('::')[-1] in ('into_iter', 'iter') and len(src[2]) == 1)):
                    src = src[1] if src[0] != 'call' else src[2][0]
                if isinstance(src, tuple) and len(src) == 2 and src[0] == 'array':
                    for el in src[1]:
                        vs = [x[1] for x in term_walk(el) if isinstance(x, tuple) and x and x[0] in ('val', 'str')]
                        els.append(vs[0] if len(vs) == 1 else '?')
                else:
                    els.append('?loop over ' + fmt(src)[:40])
            elif done:
                els.append('?loop')
        ln = [term_int(e[2][1][2].get('0')) if agg_variant(e[2][1]) == 'Some' else None for e in p.effects if e[0] == 'call' and e[1] and e[1].endswith('serialize_seq')]
        for k in w:
            table.setdefault(k, set()).add((tuple(els), ln[0] if ln else None))

    def names(t):
        return tuple('n4' if ('110, 52' in x or x == 'n4') else 'n6' if ('110, 54' in x or x == 'n6') else x for x in t)
    norm = {k: {(names(e), l) for e, l in v} for k, v in table.items()}
    exp = {'None': {((), 0)}, 'V4': {(('n4',), 1)}, 'V6': {(('n6',), 1)}, 'Both': {(('n4', 'n6'), 2)}}
    res.check(norm == exp, 'TABLE', wb.path, 'encode want: absent -> [], V4 -> [n4], V6 -> [n6], Both -> [n4, n6]', detail=str(norm))
    rule_want_decode(ctx, res)


def rule_want_decode(ctx, res):
    """the `want` list decoder as an automaton over None / V4 / V6 / Both (shared with C05: the families a reply may carry)"""
    wv = common.enum_variants(ctx, 'message::Want')
    iwv = {v: k for k, v in wv.items()}
    vb = find_body(ctx, r"^<message::want::deserialize::WantVisitor as .*Visitor<'de>>::visit_seq$")
    res.touch(vb)
    vs = Sym(vb)
    vs.run()
    res.paths += len(vs.paths)
    trans = {}
    step_bad = []
    WANT_STEP = {('None', 'n4'): 'V4', ('None', 'n6'): 'V6', ('V4', 'n4'): 'V4', ('V4', 'n6'): 'Both', ('V6', 'n4'): 'Both', ('V6', 'n6'): 'V6',
                 ('Both', 'n4'): 'Both', ('Both', 'n6'): 'Both'}
    # the decoder's state: the loop-carried Option<Want> variable (whatever it is called)
    state_locals = {l for l, d in enumerate(vb.locals) if d.get('user') and d.get('ty') == 'std::option::Option<message::Want>' and l > vb.arg_count}

    def on_state(t):
        for x in term_walk(t):
            if isinstance(x, tuple) and len(x) >= 3 and x[0] in ('loopvar', 'local') and x[1] in state_locals:
                return True
        return False
    for p in vs.paths:
        if p.end != 'loop':
            continue
        cur = {'None', 'V4', 'V6', 'Both'}
        word = None
        neg = set()
        for c in p.conds:
            rel, a, b2, truth = literal(c)
            if rel == 'variant' and on_state(a) and not find_calls(a, 'next_element'):
                if (a[0] in ('local', 'loopvar')) and isinstance(b2, tuple) and b2[0] == 'not' and {0, 1} <= set(b2[1]):
                    cur = set()          # neither None nor Some: not a value of an Option (compiler-generated dead arm)
                    break
                if a[0] == 'loopvar' or (a[0] in ('local', 'loopvar')):
                    cur &= ({'V4', 'V6', 'Both'} if option_is_some(b2) else {'None'})
                else:
                    if isinstance(b2, tuple) and b2[0] == 'not':
                        cur &= ({k for k in wv if wv[k] not in b2[1]} | {'None'})
                    else:
                        cur &= {iwv.get(b2)}
            if rel == 'eq' and isinstance(b2, tuple) and b2[0] == 'str' and find_calls(a, '::trim'):
                if truth:
                    word = b2[1]
                else:
                    neg.add(b2[1])
        new = None
        for e in p.effects:
            if e[0] == 'write':
                pass
        # the value assigned to `value` on this iteration: last env of local named value is not exposed; use the aggregate in effects
        val = None
        for l, t in p.env.items():
            if l in state_locals:
                val = t
        if isinstance(val, tuple) and val[0] == 'agg':
            new = agg_variant(val[2].get('0')) if agg_variant(val) == 'Some' else 'None'
        elif isinstance(val, tuple) and val[0] == 'loopvar':
            new = 'same'
        for k in cur:
            if word:
                trans.setdefault((k, word.lower()), set()).add(new)
            # the whole automaton, not only the four transitions that change the state: a repeated tag keeps the state,
            # an unknown string keeps the state, Both is absorbing
            newk = k if new == 'same' else new
            if word and word.lower() in ('n4', 'n6'):
                if newk != WANT_STEP[(k, word.lower())]:
                    step_bad.append('%s --%s--> %s' % (k, word, newk))
            else:
                if newk != k:
                    step_bad.append('%s --%s--> %s' % (k, word or 'other', newk))
                if not word:
                    for w in ('n4', 'n6'):
                        if not ({w, w.upper()} <= neg) and WANT_STEP[(k, w)] != k:
                            step_bad.append('%s --(%s not told apart)--> %s' % (k, w, newk))
    want = {('None', 'n4'): {'V4'}, ('None', 'n6'): {'V6'}, ('V4', 'n6'): {'Both'}, ('V6', 'n4'): {'Both'}}
    got = {k: v for k, v in trans.items() if k in want}
    if got != want:
        # form B: the families seen are kept in two boolean flags and mapped to Option<Want> after the loop
        fb = _want_flags_automaton(vb, vs, wv)
        if fb is not None:
            got = {k: v for k, v in fb.items() if k in want}
            trans = fb
            step_bad = ['%s --%s--> %s' % (k[0], k[1], sorted(v)) for k, v in fb.items() if k in WANT_STEP and v != {WANT_STEP[k]}]
            step_bad += ['%s --%s--> ?' % k for k in WANT_STEP if k not in fb]
    res.check(got == want and not step_bad, 'TABLE', vb.path, 'decode want: n4 -> V4, n6 -> V6, both in either order -> Both (case-insensitive, other strings ignored)', detail=(str(step_bad[:4]) + ' ' if step_bad else '') + str(trans))


def rule_error_shape(ctx, res):
    b = find_body(ctx, r'^<message::Error as .*Serialize>::serialize$')
    res.touch(b)
    s = Sym(b)
    s.run()
    ok = bool(s.complete_paths())
    for p in s.paths:
        if p.end != 'return' or agg_variant(p.ret) == 'Err' or (p.ret[0] == 'call' and p.ret[1].endswith('from_residual')):
            continue
        seq = [e for e in p.effects if e[0] == 'call' and e[1] and e[1].endswith('serialize_seq')]
        els = [field_chain(strip_transparent(e[2][1]))[-1:] for e in p.effects if e[0] == 'call' and e[1] and e[1].endswith('serialize_element')]
        if not seq or term_int(seq[0][2][1][2].get('0')) != 2 or els != [['code'], ['message']]:
            ok = False
    res.check(ok, 'TABLE', b.path, 'an error is encoded as a list of exactly [code, text]')
    vb = find_body(ctx, r"^<<message::Error as .*Deserialize<'de>>::deserialize::ErrorVisitor as .*Visitor<'de>>::visit_seq$")
    res.touch(vb)
    vs = Sym(vb)
    vs.run()
    okd = False
    for p in vs.complete_paths():
        if agg_variant(p.ret) == 'Ok':
            e = p.ret[2].get('0')
            ne = [x for x in p.effects if x[0] == 'call' and x[1] and x[1].endswith('next_element')]
            extra = [literal(c)[3] for c in p.conds if literal(c)[0] == 'bool' and literal(c)[1][0] == 'call' and literal(c)[1][1].endswith('::is_some')]
            okd = len(ne) == 3 and extra == [False] and e[0] == 'agg' and set(e[2].keys()) == {'code', 'message'}
    res.check(okd, 'TABLE', vb.path, 'an error is decoded from a list of exactly two elements: integer code, then text')
    adt = ctx.f.adts.get('message::Error')
    tys = {f['name']: f['ty'] for f in adt['variants'][0]['fields']} if adt else {}
    res.check(tys == {'code': 'u8', 'message': 'std::string::String'}, 'TYPE', 'message::Error', 'code is an integer 0..255, text is UTF-8', detail=str(tys))


def run(ctx, res):
    common.rule_no_addr_canonicalisation(ctx, res)
    rule_key_tables(ctx, res)
    rule_untagged_order(ctx, res)
    rule_diagonal(ctx, res)
    rule_compact(ctx, res)
    rule_port_and_want(ctx, res)
    rule_error_shape(ctx, res)
