//! factgen — rustc_private driver that dumps the type-checked program of one crate as JSON facts.
//!
//! Used as RUSTC_WORKSPACE_WRAPPER: argv[1] is the real rustc and is dropped. For the crate named
//! by FACTGEN_CRATE (default "btdht") compiled as a library (not cfg(test)), it writes
//! FACTGEN_OUT (one write) with: bodies (mir_built), items, consts, attrs (expanded AST), meta.
//! Nothing of the analysed crate is executed.
#![feature(rustc_private)]
#![allow(rustc::internal)]

extern crate rustc_abi;
extern crate rustc_ast;
extern crate rustc_ast_pretty;
extern crate rustc_data_structures;
extern crate rustc_driver;
extern crate rustc_hir;
extern crate rustc_interface;
extern crate rustc_middle;
extern crate rustc_session;
extern crate rustc_span;

mod json;
use json::J;

use rustc_driver::Compilation;
use rustc_hir::def::DefKind;
use rustc_hir::def_id::{DefId, LocalDefId};
use rustc_middle::mir::{
    self, AggregateKind, BasicBlockData, Body, Const, ConstValue, Operand, Place, PlaceElem,
    Rvalue, StatementKind, TerminatorKind, VarDebugInfoContents,
};
use rustc_middle::ty::print::{with_forced_trimmed_paths, with_no_trimmed_paths};
use rustc_middle::ty::{self, Instance, Ty, TyCtxt, TypeVisitableExt, TypingEnv};
use rustc_span::{ExpnKind, Span};

struct Cb;

fn main() {
    let mut args: Vec<String> = std::env::args().collect();
    // wrapper mode: argv[1] is the path of the real rustc
    if args.len() > 1 && (args[1].ends_with("rustc") || args[1].contains("/rustc")) {
        args.remove(1);
    }
    let target = std::env::var("FACTGEN_CRATE").unwrap_or_else(|_| "btdht".to_string());
    let is_target = args.windows(2).any(|w| w[0] == "--crate-name" && w[1] == target);
    let is_test = args.iter().any(|a| a == "--test");
    if is_target && !is_test && std::env::var("FACTGEN_OUT").is_ok() {
        rustc_driver::run_compiler(&args, &mut Cb);
    } else {
        struct Nop;
        impl rustc_driver::Callbacks for Nop {}
        rustc_driver::run_compiler(&args, &mut Nop);
    }
}

impl rustc_driver::Callbacks for Cb {
    fn after_expansion<'tcx>(
        &mut self,
        _c: &rustc_interface::interface::Compiler,
        tcx: TyCtxt<'tcx>,
    ) -> Compilation {
        let out = std::env::var("FACTGEN_OUT").unwrap();
        let mut root: Vec<(String, J)> = Vec::new();
        // attrs first: borrows the resolver output before lowering consumes it
        let attrs = dump_attrs(tcx);
        root.push(("attrs".into(), attrs));
        let fx = Fx { tcx };
        root.push(("meta".into(), fx.meta()));
        let bodies = fx.bodies();
        root.push(("items".into(), fx.items()));
        root.push(("consts".into(), fx.consts()));
        root.push(("bodies".into(), bodies));
        let s = J::Obj(root).to_string();
        std::fs::write(&out, s).expect("write facts");
        Compilation::Continue
    }
}

// ------------------------------------------------------------------------------------------------
// attrs from the expanded AST

fn dump_attrs<'tcx>(tcx: TyCtxt<'tcx>) -> J {
    use rustc_ast::visit::{self, Visitor};
    use rustc_ast::{Item, ItemKind, VariantData};
    struct V {
        path: Vec<String>,
        out: Vec<J>,
    }
    fn attrs_of(attrs: &[rustc_ast::Attribute]) -> J {
        J::Arr(
            attrs
                .iter()
                .filter(|a| !a.is_doc_comment())
                .map(|a| J::Str(rustc_ast_pretty::pprust::attribute_to_string(a)))
                .collect(),
        )
    }
    fn fields_of(vd: &VariantData) -> J {
        J::Arr(
            vd.fields()
                .iter()
                .enumerate()
                .map(|(i, f)| {
                    J::obj(vec![
                        (
                            "name",
                            J::Str(f.ident.map(|i| i.to_string()).unwrap_or_else(|| i.to_string())),
                        ),
                        ("ty", J::Str(rustc_ast_pretty::pprust::ty_to_string(&f.ty))),
                        ("attrs", attrs_of(&f.attrs)),
                    ])
                })
                .collect(),
        )
    }
    impl<'a> Visitor<'a> for V {
        fn visit_item(&mut self, item: &'a Item) {
            match &item.kind {
                ItemKind::Mod(_, ident, _) => {
                    self.path.push(ident.to_string());
                    visit::walk_item(self, item);
                    self.path.pop();
                    return;
                }
                ItemKind::Struct(ident, _, vd) => {
                    let mut p = self.path.clone();
                    p.push(ident.to_string());
                    self.out.push(J::obj(vec![
                        ("path", J::Str(p.join("::"))),
                        ("kind", J::Str("struct".into())),
                        ("attrs", attrs_of(&item.attrs)),
                        ("fields", fields_of(vd)),
                    ]));
                }
                ItemKind::Enum(ident, _, ed) => {
                    let mut p = self.path.clone();
                    p.push(ident.to_string());
                    let variants = ed
                        .variants
                        .iter()
                        .map(|v| {
                            J::obj(vec![
                                ("name", J::Str(v.ident.to_string())),
                                ("attrs", attrs_of(&v.attrs)),
                                ("fields", fields_of(&v.data)),
                            ])
                        })
                        .collect();
                    self.out.push(J::obj(vec![
                        ("path", J::Str(p.join("::"))),
                        ("kind", J::Str("enum".into())),
                        ("attrs", attrs_of(&item.attrs)),
                        ("variants", J::Arr(variants)),
                    ]));
                }
                ItemKind::Fn(f) => {
                    // items nested in fn bodies get the fn name as a path segment
                    self.path.push(f.ident.to_string());
                    visit::walk_item(self, item);
                    self.path.pop();
                    return;
                }
                _ => {}
            }
            visit::walk_item(self, item);
        }
    }
    let r = tcx.resolver_for_lowering().borrow();
    let mut v = V { path: vec![], out: vec![] };
    visit::walk_crate(&mut v, &r.1);
    J::Arr(v.out)
}

// ------------------------------------------------------------------------------------------------

struct Fx<'tcx> {
    tcx: TyCtxt<'tcx>,
}

fn fnv(bytes: &[u8]) -> u64 {
    let mut h: u64 = 0xcbf29ce484222325;
    for b in bytes {
        h ^= *b as u64;
        h = h.wrapping_mul(0x100000001b3);
    }
    h
}

impl<'tcx> Fx<'tcx> {
    fn path(&self, did: DefId) -> String {
        with_no_trimmed_paths!(self.tcx.def_path_str(did))
    }
    fn tys(&self, ty: Ty<'tcx>) -> String {
        with_no_trimmed_paths!(ty.to_string())
    }

    /// evaluate array lengths given as named constants ([u8; N] -> [u8; 8])
    fn norm_consts(&self, t: Ty<'tcx>) -> Ty<'tcx> {
        let tcx = self.tcx;
        match t.kind() {
            ty::Array(elem, len) => {
                let env = TypingEnv::fully_monomorphized();
                let len2 = tcx.try_normalize_erasing_regions(env, ty::Unnormalized::new_wip(*len)).unwrap_or(*len);
                match len2.try_to_target_usize(tcx) {
                    Some(n) => Ty::new_array(tcx, self.norm_consts(*elem), n),
                    None => t,
                }
            }
            _ => t,
        }
    }

    fn meta(&self) -> J {
        let tcx = self.tcx;
        let sm = tcx.sess.source_map();
        let mut files = Vec::new();
        for f in sm.files().iter() {
            if let rustc_span::FileName::Real(ref rn) = f.name {
                let p = rn
                    .local_path()
                    .map(|p| p.to_string_lossy().to_string())
                    .unwrap_or_default();
                if p.is_empty() || p.starts_with('/') {
                    continue;
                }
                let (len, h) = match &f.src {
                    Some(s) => (s.len() as i128, format!("{:016x}", fnv(s.as_bytes()))),
                    None => (-1, String::new()),
                };
                files.push(J::obj(vec![
                    ("path", J::Str(p)),
                    ("len", J::Num(len)),
                    ("fnv", J::Str(h)),
                ]));
            }
        }
        let cfg: Vec<J> = tcx
            .sess
            .config
            .iter()
            .map(|(k, v)| {
                J::Str(match v {
                    Some(v) => format!("{}={}", k, v),
                    None => k.to_string(),
                })
            })
            .collect();
        J::obj(vec![
            ("crate", J::Str(tcx.crate_name(rustc_hir::def_id::LOCAL_CRATE).to_string())),
            ("rustc", J::Str(option_env!("CFG_VERSION").unwrap_or("nightly").to_string())),
            ("files", J::Arr(files)),
            ("cfg", J::Arr(cfg)),
            (
                "cwd",
                J::Str(std::env::current_dir().map(|p| p.to_string_lossy().to_string()).unwrap_or_default()),
            ),
        ])
    }

    fn vis(&self, ldid: LocalDefId) -> J {
        let tcx = self.tcx;
        let ev = tcx.effective_visibilities(());
        let reach = ev.is_reachable(ldid);
        let exported = ev.is_exported(ldid);
        let nominal = match tcx.def_kind(ldid) {
            DefKind::Fn
            | DefKind::AssocFn
            | DefKind::Struct
            | DefKind::Enum
            | DefKind::Const { .. }
            | DefKind::AssocConst { .. }
            | DefKind::Mod
            | DefKind::Trait
            | DefKind::TyAlias
            | DefKind::Field
            | DefKind::Static { .. } => {
                let v = tcx.visibility(ldid);
                match v {
                    ty::Visibility::Public => "pub".to_string(),
                    ty::Visibility::Restricted(m) => {
                        if m.is_crate_root() {
                            "crate".to_string()
                        } else {
                            format!("in {}", self.path(m))
                        }
                    }
                }
            }
            _ => "?".to_string(),
        };
        J::obj(vec![
            ("nominal", J::Str(nominal)),
            ("reachable", J::Bool(reach)),
            ("exported", J::Bool(exported)),
        ])
    }

    fn items(&self) -> J {
        let tcx = self.tcx;
        let mut adts = Vec::new();
        let mut impls = Vec::new();
        let mut fns = Vec::new();
        let mut mods = Vec::new();
        for ldid in tcx.hir_crate_items(()).definitions() {
            let did = ldid.to_def_id();
            match tcx.def_kind(ldid) {
                DefKind::Struct | DefKind::Enum | DefKind::Union => {
                    let adt = tcx.adt_def(did);
                    let mut variants = Vec::new();
                    for (vidx, v) in adt.variants().iter_enumerated() {
                        let discr = if adt.is_enum() {
                            J::Num(adt.discriminant_for_variant(tcx, vidx).val as i128)
                        } else {
                            J::Null
                        };
                        let fields: Vec<J> = v
                            .fields
                            .iter()
                            .map(|f| {
                                let fty = tcx.type_of(f.did).instantiate_identity().skip_norm_wip();
                                let fty_norm = tcx
                                    .try_normalize_erasing_regions(TypingEnv::fully_monomorphized(), ty::Unnormalized::new_wip(fty))
                                    .ok()
                                    .filter(|_| tcx.generics_of(did).count() == 0)
                                    .map(|t| self.norm_consts(t))
                                    .unwrap_or(fty);
                                J::obj(vec![
                                    ("name", J::Str(f.name.to_string())),
                                    ("ty", J::Str(self.tys(fty))),
                                    ("ty_norm", J::Str(self.tys(fty_norm))),
                                    (
                                        "vis",
                                        J::Str(match f.vis {
                                            ty::Visibility::Public => "pub".into(),
                                            ty::Visibility::Restricted(m) => {
                                                if m.is_crate_root() {
                                                    "crate".to_string()
                                                } else {
                                                    format!("in {}", self.path(m))
                                                }
                                            }
                                        }),
                                    ),
                                ])
                            })
                            .collect();
                        variants.push(J::obj(vec![
                            ("name", J::Str(v.name.to_string())),
                            ("discr", discr),
                            ("fields", J::Arr(fields)),
                        ]));
                    }
                    adts.push(J::obj(vec![
                        ("path", J::Str(self.path(did))),
                        (
                            "kind",
                            J::Str(
                                if adt.is_enum() {
                                    "enum"
                                } else if adt.is_union() {
                                    "union"
                                } else {
                                    "struct"
                                }
                                .into(),
                            ),
                        ),
                        ("vis", self.vis(ldid)),
                        ("span", self.span_str(tcx.def_span(did))),
                        ("variants", J::Arr(variants)),
                    ]));
                }
                DefKind::Impl { of_trait } => {
                    let self_ty = tcx.type_of(did).instantiate_identity().skip_norm_wip();
                    let tr = if of_trait {
                        let tr = tcx.impl_trait_ref(did).instantiate_identity().skip_norm_wip();
                        J::Str(self.path(tr.def_id))
                    } else {
                        J::Null
                    };
                    let tr_full = if of_trait {
                        let tr = tcx.impl_trait_ref(did).instantiate_identity().skip_norm_wip();
                        J::Str(with_no_trimmed_paths!(tr.to_string()))
                    } else {
                        J::Null
                    };
                    let assoc: Vec<J> = tcx
                        .associated_item_def_ids(did)
                        .iter()
                        .map(|d| J::Str(self.path(*d)))
                        .collect();
                    impls.push(J::obj(vec![
                        ("path", J::Str(self.path(did))),
                        ("self_ty", J::Str(self.tys(self_ty))),
                        ("trait", tr),
                        ("trait_ref", tr_full),
                        ("derived", J::Bool(tcx.is_automatically_derived(did))),
                        ("items", J::Arr(assoc)),
                        ("span", self.span_str(tcx.def_span(did))),
                    ]));
                }
                DefKind::Fn | DefKind::AssocFn => {
                    let sig = tcx.fn_sig(did).instantiate_identity().skip_norm_wip();
                    let is_async = tcx.asyncness(did).is_async();
                    let safety = format!("{:?}", sig.safety());
                    fns.push(J::obj(vec![
                        ("path", J::Str(self.path(did))),
                        ("vis", self.vis(ldid)),
                        ("sig", J::Str(with_no_trimmed_paths!(sig.to_string()))),
                        ("async", J::Bool(is_async)),
                        ("safety", J::Str(safety)),
                        ("span", self.span_str(tcx.def_span(did))),
                        (
                            "parent_impl",
                            match tcx.opt_parent(did) {
                                Some(p) if matches!(tcx.def_kind(p), DefKind::Impl { .. }) => {
                                    J::Str(self.path(p))
                                }
                                _ => J::Null,
                            },
                        ),
                    ]));
                }
                DefKind::Mod => {
                    mods.push(J::obj(vec![("path", J::Str(self.path(did))), ("vis", self.vis(ldid))]));
                }
                _ => {}
            }
        }
        J::obj(vec![
            ("adts", J::Arr(adts)),
            ("impls", J::Arr(impls)),
            ("fns", J::Arr(fns)),
            ("mods", J::Arr(mods)),
        ])
    }

    fn consts(&self) -> J {
        let tcx = self.tcx;
        let mut out = Vec::new();
        for ldid in tcx.hir_crate_items(()).definitions() {
            let did = ldid.to_def_id();
            if !matches!(tcx.def_kind(ldid), DefKind::Const { .. } | DefKind::AssocConst { .. }) {
                continue;
            }
            if tcx.generics_of(did).count() != 0 {
                continue;
            }
            // trait-associated consts without a body cannot be evaluated
            if tcx.hir_maybe_body_owned_by(ldid).is_none() {
                continue;
            }
            let ty = tcx.type_of(did).instantiate_identity().skip_norm_wip();
            let val = match tcx.const_eval_poly(did) {
                Ok(cv) => self.const_value(cv, ty),
                Err(_) => J::Null,
            };
            out.push(J::obj(vec![
                ("path", J::Str(self.path(did))),
                ("ty", J::Str(self.tys(ty))),
                ("value", val),
                ("span", self.span_str(tcx.def_span(did))),
            ]));
        }
        J::Arr(out)
    }

    fn const_value(&self, cv: ConstValue, ty: Ty<'tcx>) -> J {
        let tcx = self.tcx;
        match cv {
            ConstValue::Scalar(s) => match s.try_to_scalar_int() {
                Ok(si) => {
                    let size = si.size();
                    let bits = si.to_bits(size);
                    if ty.is_signed() {
                        J::Num(size.sign_extend(bits) as i128)
                    } else if ty.is_bool() {
                        J::Bool(bits != 0)
                    } else {
                        J::Num(bits as i128)
                    }
                }
                Err(_) => J::Str("<ptr>".into()),
            },
            ConstValue::ZeroSized => J::Str("<zst>".into()),
            ConstValue::Slice { .. } => {
                match cv.try_get_slice_bytes_for_diagnostics(tcx) {
                    Some(b) => J::obj(vec![("bytes", J::Str(String::from_utf8_lossy(b).to_string()))]),
                    None => J::Null,
                }
            }
            ConstValue::Indirect { alloc_id, offset } => {
                let alloc = tcx.global_alloc(alloc_id).unwrap_memory().inner();
                self.decode(alloc, offset, ty, 0)
            }
        }
    }

    /// Decode a value of type `ty` stored at `offset` in `alloc` through the type's layout.
    fn decode(&self, alloc: &mir::interpret::Allocation, offset: rustc_abi::Size, ty: Ty<'tcx>, depth: usize) -> J {
        let tcx = self.tcx;
        if depth > 6 {
            return J::Null;
        }
        let env = TypingEnv::fully_monomorphized();
        let Ok(layout) = tcx.layout_of(env.as_query_input(ty)) else { return J::Null };
        let read_int = |off: rustc_abi::Size, size: rustc_abi::Size| -> Option<u128> {
            let start = off.bytes_usize();
            let end = start + size.bytes_usize();
            if end > alloc.len() {
                return None;
            }
            let bytes = alloc.inspect_with_uninit_and_ptr_outside_interpreter(start..end);
            let mut v: u128 = 0;
            for (i, b) in bytes.iter().enumerate() {
                v |= (*b as u128) << (8 * i);
            }
            Some(v)
        };
        match ty.kind() {
            ty::Bool => read_int(offset, layout.size).map(|v| J::Bool(v != 0)).unwrap_or(J::Null),
            ty::Uint(_) | ty::Char => read_int(offset, layout.size).map(|v| J::Num(v as i128)).unwrap_or(J::Null),
            ty::Int(_) => read_int(offset, layout.size)
                .map(|v| J::Num(layout.size.sign_extend(v) as i128))
                .unwrap_or(J::Null),
            ty::Pat(base, _) => self.decode(alloc, offset, *base, depth + 1),
            ty::Array(elem, _) => {
                let rustc_abi::FieldsShape::Array { stride, count } = layout.fields else { return J::Null };
                let mut v = Vec::new();
                for i in 0..count.min(4096) {
                    v.push(self.decode(alloc, offset + stride * i, *elem, depth + 1));
                }
                J::Arr(v)
            }
            ty::Tuple(tys) => {
                let mut v = Vec::new();
                for (i, t) in tys.iter().enumerate() {
                    v.push(self.decode(alloc, offset + layout.fields.offset(i), t, depth + 1));
                }
                J::Arr(v)
            }
            ty::Adt(adt, args) if adt.is_struct() => {
                let mut v = Vec::new();
                for (i, f) in adt.non_enum_variant().fields.iter().enumerate() {
                    let fty = f.ty(tcx, args);
                    let fty = tcx.try_normalize_erasing_regions(env, ty::Unnormalized::new_wip(fty)).unwrap_or(fty);
                    v.push((f.name.to_string(), self.decode(alloc, offset + layout.fields.offset(i), fty, depth + 1)));
                }
                J::Obj(v)
            }
            ty::Ref(_, inner, _) => {
                // pointer: follow provenance
                let ptr_size = tcx.data_layout.pointer_size();
                let Some((_, prov)) = alloc.provenance().ptrs().iter().find(|(o, _)| *o == offset).map(|(o, p)| (*o, *p)) else {
                    return J::Null;
                };
                let Some(addr) = read_int(offset, ptr_size) else { return J::Null };
                let target = match tcx.global_alloc(prov.alloc_id()) {
                    mir::interpret::GlobalAlloc::Memory(m) => m.inner(),
                    _ => return J::Null,
                };
                let toff = rustc_abi::Size::from_bytes(addr as u64);
                match inner.kind() {
                    ty::Str => {
                        let Some(len) = read_int(offset + ptr_size, ptr_size) else { return J::Null };
                        let s = toff.bytes_usize();
                        let e = s + len as usize;
                        if e > target.len() {
                            return J::Null;
                        }
                        let b = target.inspect_with_uninit_and_ptr_outside_interpreter(s..e);
                        J::Str(String::from_utf8_lossy(b).to_string())
                    }
                    ty::Slice(elem) => {
                        let Some(len) = read_int(offset + ptr_size, ptr_size) else { return J::Null };
                        let Ok(el) = tcx.layout_of(env.as_query_input(*elem)) else { return J::Null };
                        let mut v = Vec::new();
                        for i in 0..(len as u64).min(4096) {
                            v.push(self.decode(target, toff + el.size * i, *elem, depth + 1));
                        }
                        J::Arr(v)
                    }
                    _ => self.decode(target, toff, *inner, depth + 1),
                }
            }
            _ => J::Null,
        }
    }

    // --------------------------------------------------------------------------------------------

    fn span_str(&self, sp: Span) -> J {
        J::Str(self.span_string(sp))
    }

    fn span_string(&self, sp: Span) -> String {
        let mut s = sp;
        let mut guard = 0;
        while s.from_expansion() && guard < 32 {
            s = s.source_callsite();
            guard += 1;
        }
        let sm = self.tcx.sess.source_map();
        let lo = sm.lookup_char_pos(s.lo());
        let name = match &lo.file.name {
            rustc_span::FileName::Real(rn) => rn
                .local_path()
                .map(|p| p.to_string_lossy().to_string())
                .unwrap_or_else(|| "?".into()),
            _ => "?".into(),
        };
        format!("{}:{}:{}", name, lo.line, lo.col.0 + 1)
    }

    /// expansion chain of a span, innermost first: "m:name" for macros, "d:Kind" for desugarings
    fn expn(&self, sp: Span) -> J {
        let mut v: Vec<J> = Vec::new();
        let mut s = sp;
        let mut guard = 0;
        let mut last = String::new();
        while s.from_expansion() && guard < 32 {
            let data = s.ctxt().outer_expn_data();
            let d = match data.kind {
                ExpnKind::Macro(_, name) => format!("m:{}", name),
                ExpnKind::Desugaring(k) => format!("d:{:?}", k),
                ExpnKind::AstPass(k) => format!("a:{:?}", k),
                ExpnKind::Root => "root".to_string(),
            };
            if d != last {
                v.push(J::Str(d.clone()));
                last = d;
            }
            s = data.call_site;
            guard += 1;
        }
        J::Arr(v)
    }

    fn bodies(&self) -> J {
        let tcx = self.tcx;
        let mut out = Vec::new();
        // clone every body first: evaluating constants later steals the mir_built of const items
        // (and type-checking a fn may evaluate array-length consts), so const-like owners go first
        let mut owners: Vec<LocalDefId> = tcx.hir_body_owners().collect();
        owners.sort_by_key(|l| match tcx.def_kind(*l) {
            DefKind::Const { .. } | DefKind::AssocConst { .. } | DefKind::Static { .. } => 0,
            _ => {
                // async fns (and everything nested in them) before the rest: a `spawn` elsewhere
                // asks for the coroutine witnesses of every future reachable from the spawned one,
                // which steals their mir_built
                let mut cur = *l;
                let mut is_async = false;
                loop {
                    let d = cur.to_def_id();
                    if tcx.coroutine_kind(d).is_some() {
                        is_async = true;
                        break;
                    }
                    if matches!(tcx.def_kind(cur), DefKind::Fn | DefKind::AssocFn) {
                        is_async = tcx.asyncness(d).is_async();
                        break;
                    }
                    if !matches!(tcx.def_kind(cur), DefKind::Closure | DefKind::AnonConst | DefKind::InlineConst) {
                        break;
                    }
                    cur = tcx.local_parent(cur);
                }
                if is_async { 1 } else { 2 }
            }
        });
        let cloned: Vec<Option<Body<'tcx>>> = owners
            .iter()
            .map(|l| {
                if matches!(tcx.def_kind(*l), DefKind::AnonConst | DefKind::InlineConst) {
                    // a const argument's anon const is only lowered while its parent is type-checked
                    let p = tcx.local_parent(*l);
                    if tcx.hir_maybe_body_owned_by(p).is_some() {
                        tcx.ensure_ok().typeck(p);
                    }
                }
                let st = tcx.mir_built(*l);
                if st.is_stolen() { None } else { Some(st.borrow().clone()) }
            })
            .collect();
        for (ldid, body) in owners.into_iter().zip(cloned.into_iter()) {
            let Some(body) = body else {
                out.push(J::obj(vec![
                    ("path", J::Str(self.path(ldid.to_def_id()))),
                    ("kind", J::Str("stolen".into())),
                ]));
                continue;
            };
            let did = ldid.to_def_id();
            let kind = tcx.def_kind(ldid);
            let kind_s = match kind {
                DefKind::Fn => "fn",
                DefKind::AssocFn => "method",
                DefKind::Closure => {
                    if tcx.coroutine_kind(did).is_some() {
                        "coroutine"
                    } else {
                        "closure"
                    }
                }
                DefKind::Const { .. } => "const",
                DefKind::AssocConst { .. } => "assoc_const",
                DefKind::AnonConst => "anon_const",
                DefKind::InlineConst => "inline_const",
                DefKind::Static { .. } => "static",
                _ => "other",
            };
            let b = BodyFx { fx: self, body: &body, env: TypingEnv::post_analysis(tcx, did) };
            let mut o = vec![
                ("path", J::Str(self.path(did))),
                ("kind", J::Str(kind_s.into())),
                ("span", self.span_str(tcx.def_span(did))),
                (
                    "parent",
                    match kind {
                        DefKind::Closure | DefKind::AnonConst | DefKind::InlineConst => {
                            J::Str(self.path(tcx.parent(did)))
                        }
                        _ => J::Null,
                    },
                ),
                ("arg_count", J::Num(body.arg_count as i128)),
            ];
            if kind == DefKind::Closure {
                let names: Vec<J> = tcx
                    .closure_saved_names_of_captured_variables(did)
                    .iter()
                    .map(|s| J::Str(s.to_string()))
                    .collect();
                o.push(("upvars", J::Arr(names)));
            }
            o.push(("locals", b.locals()));
            o.push(("debug", b.debug()));
            o.push(("blocks", b.blocks()));
            out.push(J::obj(o));
        }
        J::Arr(out)
    }
}

struct BodyFx<'a, 'tcx> {
    fx: &'a Fx<'tcx>,
    body: &'a Body<'tcx>,
    env: TypingEnv<'tcx>,
}

impl<'a, 'tcx> BodyFx<'a, 'tcx> {
    fn locals(&self) -> J {
        J::Arr(
            self.body
                .local_decls
                .iter()
                .map(|d| {
                    J::obj(vec![
                        ("ty", J::Str(self.fx.tys(d.ty))),
                        ("mut", J::Bool(d.mutability.is_mut())),
                        ("user", J::Bool(d.is_user_variable())),
                    ])
                })
                .collect(),
        )
    }

    fn debug(&self) -> J {
        J::Arr(
            self.body
                .var_debug_info
                .iter()
                .filter_map(|v| match &v.value {
                    VarDebugInfoContents::Place(p) => Some(J::obj(vec![
                        ("name", J::Str(v.name.to_string())),
                        ("place", self.place(p)),
                        ("arg", match v.argument_index { Some(i) => J::Num(i as i128), None => J::Null }),
                    ])),
                    _ => None,
                })
                .collect(),
        )
    }

    fn place(&self, p: &Place<'tcx>) -> J {
        let tcx = self.fx.tcx;
        let mut proj = Vec::new();
        let mut pty = mir::PlaceTy::from_ty(self.body.local_decls[p.local].ty);
        for elem in p.projection.iter() {
            let j = match elem {
                PlaceElem::Deref => J::Str("*".into()),
                PlaceElem::Field(f, _) => {
                    let name = match pty.ty.kind() {
                        ty::Adt(adt, _) => {
                            let v = pty.variant_index.unwrap_or(rustc_abi::FIRST_VARIANT);
                            if adt.is_enum() && pty.variant_index.is_none() {
                                format!("{}", f.index())
                            } else {
                                adt.variant(v).fields[f].name.to_string()
                            }
                        }
                        ty::Closure(d, _) | ty::Coroutine(d, _) | ty::CoroutineClosure(d, _) => tcx
                            .closure_saved_names_of_captured_variables(*d)
                            .get(f)
                            .map(|s| s.to_string())
                            .unwrap_or_else(|| format!("{}", f.index())),
                        _ => format!("{}", f.index()),
                    };
                    J::obj(vec![
                        ("f", J::Num(f.index() as i128)),
                        ("n", J::Str(name)),
                        ("bt", J::Str(self.fx.tys(pty.ty))),
                    ])
                }
                PlaceElem::Index(l) => J::obj(vec![("idx", J::Num(l.index() as i128))]),
                PlaceElem::ConstantIndex { offset, from_end, .. } => {
                    J::obj(vec![("cidx", J::Num(offset as i128)), ("from_end", J::Bool(from_end))])
                }
                PlaceElem::Subslice { from, to, from_end } => J::obj(vec![
                    ("sub", J::Arr(vec![J::Num(from as i128), J::Num(to as i128)])),
                    ("from_end", J::Bool(from_end)),
                ]),
                PlaceElem::Downcast(name, vidx) => {
                    let n = match name {
                        Some(s) => s.to_string(),
                        None => match pty.ty.kind() {
                            ty::Adt(adt, _) => adt.variant(vidx).name.to_string(),
                            _ => format!("{}", vidx.index()),
                        },
                    };
                    J::obj(vec![("dc", J::Str(n)), ("v", J::Num(vidx.index() as i128))])
                }
                PlaceElem::OpaqueCast(_) => J::Str("opaque".into()),
                PlaceElem::UnwrapUnsafeBinder(_) => J::Str("unbind".into()),
            };
            proj.push(j);
            pty = pty.projection_ty(tcx, elem);
        }
        J::obj(vec![("l", J::Num(p.local.index() as i128)), ("p", J::Arr(proj)), ("ty", J::Str(self.fx.tys(pty.ty)))])
    }

    fn fn_ref(&self, did: DefId, args: ty::GenericArgsRef<'tcx>) -> Vec<(&'static str, J)> {
        let tcx = self.fx.tcx;
        let mut o = vec![
            ("path", J::Str(self.fx.path(did))),
            ("full", J::Str(with_no_trimmed_paths!(tcx.def_path_str_with_args(did, args)))),
            ("local", J::Bool(did.is_local())),
        ];
        // trait method?
        if let Some(tr) = tcx.trait_of_assoc(did) {
            o.push(("trait", J::Str(self.fx.path(tr))));
            if args.len() > 0 {
                if let Some(self_ty) = args.get(0).and_then(|a| a.as_type()) {
                    o.push(("self_ty", J::Str(self.fx.tys(self_ty))));
                    if let ty::Closure(cd, _) | ty::Coroutine(cd, _) = self_ty.kind() {
                        o.push(("self_closure", J::Str(self.fx.path(*cd))));
                    }
                    if let ty::FnDef(fd, _) = self_ty.kind() {
                        o.push(("self_fn", J::Str(self.fx.path(*fd))));
                    }
                }
            }
        }
        if let Ok(nargs) = tcx.try_normalize_erasing_regions(self.env, ty::Unnormalized::new_wip(args)) {
            {
                if let Ok(Some(inst)) = Instance::try_resolve(tcx, self.env, did, nargs) {
                    let rd = inst.def_id();
                    if rd != did {
                        o.push(("resolved", J::Str(self.fx.path(rd))));
                        o.push(("resolved_local", J::Bool(rd.is_local())));
                    }
                }
            }
        }
        // generic type args as strings (for rules about collection / iterator types)
        let targs: Vec<J> = args.iter().filter_map(|a| a.as_type()).map(|t| J::Str(self.fx.tys(t))).collect();
        o.push(("targs", J::Arr(targs)));
        o
    }

    fn operand(&self, op: &Operand<'tcx>) -> J {
        let tcx = self.fx.tcx;
        match op {
            Operand::Copy(p) => J::obj(vec![("k", J::Str("copy".into())), ("place", self.place(p))]),
            Operand::Move(p) => J::obj(vec![("k", J::Str("move".into())), ("place", self.place(p))]),
            Operand::Constant(c) => {
                let cty = c.const_.ty();
                let mut o: Vec<(&'static str, J)> = vec![("k", J::Str("const".into())), ("ty", J::Str(self.fx.tys(cty)))];
                match cty.kind() {
                    ty::FnDef(did, args) => {
                        o.push(("fn", J::obj(self.fn_ref(*did, args))));
                    }
                    _ => {
                        if let Const::Unevaluated(uv, _) = c.const_ {
                            o.push(("def", J::Str(self.fx.path(uv.def))));
                            if uv.promoted.is_some() {
                                o.push(("promoted", J::Bool(true)));
                            }
                        }
                        let is_scalar_ty = cty.is_integral() || cty.is_bool() || cty.is_char();
                        if is_scalar_ty {
                            if let Some(si) = c.const_.try_eval_scalar_int(tcx, self.env) {
                                let size = si.size();
                                let bits = si.to_bits(size);
                                if cty.is_signed() {
                                    o.push(("int", J::Num(size.sign_extend(bits) as i128)));
                                } else {
                                    o.push(("int", J::Num(bits as i128)));
                                }
                            }
                        } else if let Const::Val(cv @ ConstValue::Slice { .. }, _) = c.const_ {
                            if let Some(b) = cv.try_get_slice_bytes_for_diagnostics(tcx) {
                                o.push(("bytes", J::Str(String::from_utf8_lossy(b).to_string())));
                            }
                        } else if let Const::Val(cv @ ConstValue::Indirect { .. }, ty) = c.const_ {
                            // e.g. b"n4": &[u8; 2]
                            o.push(("val", self.fx.const_value(cv, ty)));
                        } else if let Const::Val(ConstValue::Scalar(rustc_middle::mir::interpret::Scalar::Ptr(ptr, _)), ty) = c.const_ {
                            // thin pointer constant, e.g. b"n4": &[u8; 2]
                            if let ty::Ref(_, inner, _) = ty.kind() {
                                let (prov, off) = ptr.into_raw_parts();
                                if let mir::interpret::GlobalAlloc::Memory(m) = tcx.global_alloc(prov.alloc_id()) {
                                    o.push(("val", self.fx.decode(m.inner(), off, *inner, 0)));
                                }
                            }
                        } else if let Const::Ty(ty, ct) = c.const_ {
                            // type-system constants (string patterns of a `match`): evaluate the valtree
                            if !ct.has_non_region_param() {
                                if let Ok(cv) = c.const_.eval(tcx, self.env, rustc_span::DUMMY_SP) {
                                    match cv {
                                        ConstValue::Slice { .. } => {
                                            if let Some(b) = cv.try_get_slice_bytes_for_diagnostics(tcx) {
                                                o.push(("bytes", J::Str(String::from_utf8_lossy(b).to_string())));
                                            }
                                        }
                                        ConstValue::Indirect { .. } => o.push(("val", self.fx.const_value(cv, ty))),
                                        _ => {}
                                    }
                                }
                            }
                        }
                        o.push(("text", J::Str(with_forced_trimmed_paths!(format!("{}", c.const_)))));
                    }
                }
                J::obj(o)
            }
            #[allow(unreachable_patterns)]
            _ => J::obj(vec![("k", J::Str("other".into()))]),
        }
    }

    fn rvalue(&self, rv: &Rvalue<'tcx>) -> J {
        let tcx = self.fx.tcx;
        match rv {
            Rvalue::Use(op, ..) => J::obj(vec![("k", J::Str("use".into())), ("op", self.operand(op))]),
            Rvalue::Repeat(op, n) => J::obj(vec![
                ("k", J::Str("repeat".into())),
                ("op", self.operand(op)),
                ("n", J::Str(format!("{}", n))),
            ]),
            Rvalue::Ref(_, bk, p) => J::obj(vec![
                ("k", J::Str("ref".into())),
                ("mut", J::Bool(matches!(bk, mir::BorrowKind::Mut { .. }))),
                ("fake", J::Bool(matches!(bk, mir::BorrowKind::Fake(_)))),
                ("place", self.place(p)),
            ]),
            Rvalue::ThreadLocalRef(d) => J::obj(vec![("k", J::Str("tls".into())), ("def", J::Str(self.fx.path(*d)))]),
            Rvalue::RawPtr(k, p) => J::obj(vec![
                ("k", J::Str("rawptr".into())),
                ("mut", J::Bool(matches!(k, mir::RawPtrKind::Mut))),
                ("place", self.place(p)),
            ]),
            Rvalue::Cast(kind, op, ty) => J::obj(vec![
                ("k", J::Str("cast".into())),
                ("cast", J::Str(format!("{:?}", kind))),
                ("op", self.operand(op)),
                ("ty", J::Str(self.fx.tys(*ty))),
            ]),
            Rvalue::BinaryOp(op, ab) => J::obj(vec![
                ("k", J::Str("bin".into())),
                ("op", J::Str(format!("{:?}", op))),
                ("a", self.operand(&ab.0)),
                ("b", self.operand(&ab.1)),
            ]),
            Rvalue::UnaryOp(op, a) => J::obj(vec![
                ("k", J::Str("un".into())),
                ("op", J::Str(format!("{:?}", op))),
                ("a", self.operand(a)),
            ]),
            Rvalue::Discriminant(p) => J::obj(vec![("k", J::Str("discr".into())), ("place", self.place(p))]),
            Rvalue::Aggregate(kind, ops) => {
                let mut o: Vec<(&'static str, J)> = vec![("k", J::Str("agg".into()))];
                match &**kind {
                    AggregateKind::Array(t) => {
                        o.push(("agg", J::Str("array".into())));
                        o.push(("elem_ty", J::Str(self.fx.tys(*t))));
                    }
                    AggregateKind::Tuple => o.push(("agg", J::Str("tuple".into()))),
                    AggregateKind::Adt(did, vidx, _args, _, active) => {
                        let adt = tcx.adt_def(*did);
                        let v = adt.variant(*vidx);
                        o.push(("agg", J::Str("adt".into())));
                        o.push(("adt", J::Str(self.fx.path(*did))));
                        o.push(("variant", J::Str(v.name.to_string())));
                        o.push(("vidx", J::Num(vidx.index() as i128)));
                        let names: Vec<J> = if let Some(a) = active {
                            vec![J::Str(v.fields[*a].name.to_string())]
                        } else {
                            v.fields.iter().map(|f| J::Str(f.name.to_string())).collect()
                        };
                        o.push(("fields", J::Arr(names)));
                    }
                    AggregateKind::Closure(did, _) => {
                        o.push(("agg", J::Str("closure".into())));
                        o.push(("def", J::Str(self.fx.path(*did))));
                    }
                    AggregateKind::Coroutine(did, _) => {
                        o.push(("agg", J::Str("coroutine".into())));
                        o.push(("def", J::Str(self.fx.path(*did))));
                    }
                    AggregateKind::CoroutineClosure(did, _) => {
                        o.push(("agg", J::Str("coroutine_closure".into())));
                        o.push(("def", J::Str(self.fx.path(*did))));
                    }
                    AggregateKind::RawPtr(..) => o.push(("agg", J::Str("rawptr".into()))),
                }
                o.push(("ops", J::Arr(ops.iter().map(|op| self.operand(op)).collect())));
                J::obj(o)
            }
            Rvalue::CopyForDeref(p) => J::obj(vec![("k", J::Str("copy_for_deref".into())), ("place", self.place(p))]),
            Rvalue::WrapUnsafeBinder(op, _) => J::obj(vec![("k", J::Str("use".into())), ("op", self.operand(op))]),
            #[allow(unreachable_patterns)]
            _ => J::obj(vec![("k", J::Str("other".into())), ("text", J::Str(format!("{:?}", rv)))]),
        }
    }

    fn blocks(&self) -> J {
        J::Arr(self.body.basic_blocks.iter().map(|bb| self.block(bb)).collect())
    }

    fn unwind(&self, u: &mir::UnwindAction) -> J {
        match u {
            mir::UnwindAction::Cleanup(bb) => J::Num(bb.index() as i128),
            _ => J::Null,
        }
    }

    fn block(&self, bb: &BasicBlockData<'tcx>) -> J {
        let mut stmts = Vec::new();
        for st in &bb.statements {
            match &st.kind {
                StatementKind::Assign(b) => {
                    let (p, rv) = &**b;
                    stmts.push(J::obj(vec![
                        ("k", J::Str("assign".into())),
                        ("place", self.place(p)),
                        ("rv", self.rvalue(rv)),
                        ("sp", self.fx.span_str(st.source_info.span)),
                        ("ex", self.fx.expn(st.source_info.span)),
                    ]));
                }
                StatementKind::SetDiscriminant { place, variant_index } => {
                    stmts.push(J::obj(vec![
                        ("k", J::Str("set_discr".into())),
                        ("place", self.place(place)),
                        ("v", J::Num(variant_index.index() as i128)),
                        ("sp", self.fx.span_str(st.source_info.span)),
                    ]));
                }
                StatementKind::StorageDead(l) => {
                    stmts.push(J::obj(vec![("k", J::Str("dead".into())), ("l", J::Num(l.index() as i128))]));
                }
                _ => {}
            }
        }
        let term = bb.terminator();
        let sp = term.source_info.span;
        let mut t: Vec<(&'static str, J)> = Vec::new();
        match &term.kind {
            TerminatorKind::Goto { target } => {
                t.push(("k", J::Str("goto".into())));
                t.push(("target", J::Num(target.index() as i128)));
            }
            TerminatorKind::SwitchInt { discr, targets } => {
                t.push(("k", J::Str("switch".into())));
                t.push(("discr", self.operand(discr)));
                let arms: Vec<J> = targets
                    .iter()
                    .map(|(v, bb)| J::Arr(vec![J::Num(v as i128), J::Num(bb.index() as i128)]))
                    .collect();
                t.push(("arms", J::Arr(arms)));
                t.push(("otherwise", J::Num(targets.otherwise().index() as i128)));
            }
            TerminatorKind::UnwindResume => t.push(("k", J::Str("resume".into()))),
            TerminatorKind::UnwindTerminate(_) => t.push(("k", J::Str("terminate".into()))),
            TerminatorKind::Return => t.push(("k", J::Str("return".into()))),
            TerminatorKind::Unreachable => t.push(("k", J::Str("unreachable".into()))),
            TerminatorKind::Drop { place, target, unwind, .. } => {
                t.push(("k", J::Str("drop".into())));
                t.push(("place", self.place(place)));
                t.push(("target", J::Num(target.index() as i128)));
                t.push(("unwind", self.unwind(unwind)));
            }
            TerminatorKind::Call { func, args, destination, target, unwind, fn_span, .. } => {
                t.push(("k", J::Str("call".into())));
                t.push(("func", self.operand(func)));
                t.push(("args", J::Arr(args.iter().map(|a| self.operand(&a.node)).collect())));
                t.push(("dest", self.place(destination)));
                t.push(("target", match target { Some(b) => J::Num(b.index() as i128), None => J::Null }));
                t.push(("unwind", self.unwind(unwind)));
                t.push(("fn_sp", self.fx.span_str(*fn_span)));
            }
            TerminatorKind::TailCall { func, args, .. } => {
                t.push(("k", J::Str("tailcall".into())));
                t.push(("func", self.operand(func)));
                t.push(("args", J::Arr(args.iter().map(|a| self.operand(&a.node)).collect())));
            }
            TerminatorKind::Assert { cond, expected, msg, target, unwind } => {
                t.push(("k", J::Str("assert".into())));
                t.push(("cond", self.operand(cond)));
                t.push(("expected", J::Bool(*expected)));
                let kind = match &**msg {
                    mir::AssertKind::BoundsCheck { .. } => "bounds".to_string(),
                    mir::AssertKind::Overflow(op, ..) => format!("overflow:{:?}", op),
                    mir::AssertKind::OverflowNeg(_) => "overflow:Neg".to_string(),
                    mir::AssertKind::DivisionByZero(_) => "div_zero".to_string(),
                    mir::AssertKind::RemainderByZero(_) => "rem_zero".to_string(),
                    mir::AssertKind::ResumedAfterReturn(_) => "resumed_after_return".to_string(),
                    mir::AssertKind::ResumedAfterPanic(_) => "resumed_after_panic".to_string(),
                    mir::AssertKind::ResumedAfterDrop(_) => "resumed_after_drop".to_string(),
                    mir::AssertKind::MisalignedPointerDereference { .. } => "misaligned".to_string(),
                    mir::AssertKind::NullPointerDereference => "nullptr".to_string(),
                    mir::AssertKind::InvalidEnumConstruction(_) => "invalid_enum".to_string(),
                };
                t.push(("assert", J::Str(kind)));
                if let mir::AssertKind::BoundsCheck { len, index } = &**msg {
                    t.push(("len", self.operand(len)));
                    t.push(("index", self.operand(index)));
                }
                t.push(("target", J::Num(target.index() as i128)));
                t.push(("unwind", self.unwind(unwind)));
            }
            TerminatorKind::Yield { value, resume, resume_arg, drop } => {
                t.push(("k", J::Str("yield".into())));
                t.push(("value", self.operand(value)));
                t.push(("target", J::Num(resume.index() as i128)));
                t.push(("resume_arg", self.place(resume_arg)));
                t.push(("drop", match drop { Some(b) => J::Num(b.index() as i128), None => J::Null }));
            }
            TerminatorKind::CoroutineDrop => t.push(("k", J::Str("coroutine_drop".into()))),
            TerminatorKind::FalseEdge { real_target, imaginary_target } => {
                t.push(("k", J::Str("false_edge".into())));
                t.push(("target", J::Num(real_target.index() as i128)));
                t.push(("imaginary", J::Num(imaginary_target.index() as i128)));
            }
            TerminatorKind::FalseUnwind { real_target, .. } => {
                t.push(("k", J::Str("false_unwind".into())));
                t.push(("target", J::Num(real_target.index() as i128)));
            }
            TerminatorKind::InlineAsm { .. } => t.push(("k", J::Str("asm".into()))),
        }
        t.push(("sp", self.fx.span_str(sp)));
        t.push(("ex", self.fx.expn(sp)));
        J::obj(vec![("cleanup", J::Bool(bb.is_cleanup)), ("stmts", J::Arr(stmts)), ("term", J::obj(t))])
    }
}
