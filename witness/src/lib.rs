//! Compile-fail witnesses (engine C): from *outside* the crate, the state-changing modules of btdht
//! cannot be named. Each witness has a compiling twin that differs only in the offending path, so a
//! witness whose path is merely wrong cannot pass. Run with `cargo +nightly test --doc` (error codes
//! are only honoured on nightly).

/// The public surface compiles (twin of every witness below).
/// ```
/// use btdht::message::Message;
/// use btdht::{DhtBuilder, InfoHash, MainlineDht};
/// let _ = MainlineDht::builder;
/// let _: Option<Message> = None;
/// let _: Option<InfoHash> = None;
/// let _: Option<DhtBuilder> = None;
/// ```
pub struct PublicSurface;

/// The routing table module is private.
/// ```compile_fail,E0603
/// use btdht::table::RoutingTable;
/// ```
pub struct TablePrivate;

/// ```compile_fail,E0603
/// use btdht::bucket::Bucket;
/// ```
pub struct BucketPrivate;

/// ```compile_fail,E0603
/// use btdht::node::Node;
/// ```
pub struct NodePrivate;

/// ```compile_fail,E0603
/// use btdht::storage::AnnounceStorage;
/// ```
pub struct StoragePrivate;

/// ```compile_fail,E0603
/// use btdht::token::TokenStore;
/// ```
pub struct TokenPrivate;

/// ```compile_fail,E0603
/// use btdht::transaction::MIDGenerator;
/// ```
pub struct TransactionPrivate;

/// ```compile_fail,E0603
/// use btdht::handler::DhtHandler;
/// ```
pub struct HandlerPrivate;

/// ```compile_fail,E0603
/// use btdht::socket::Socket;
/// ```
pub struct SocketPrivate;

/// ```compile_fail,E0603
/// use btdht::timer::Timer;
/// ```
pub struct TimerPrivate;

/// ```compile_fail,E0603
/// use btdht::action::lookup::TableLookup;
/// ```
pub struct ActionPrivate;

/// The builder's configuration cannot be changed behind its setters (fields are private).
/// ```compile_fail,E0616
/// let mut b = btdht::MainlineDht::builder();
/// b.read_only = false;
/// ```
pub struct BuilderFieldsPrivate;

/// The handle exposes no way to reach the routing table (no such method).
/// ```compile_fail,E0599
/// fn f(d: &btdht::MainlineDht) { let _ = d.routing_table(); }
/// ```
pub struct NoTableAccessor;
