#!/usr/bin/env python3
"""mkpatch.py <out.patch> <file relative to /repo> <old> <new> [<file> <old> <new> ...]
Creates a unified diff (a/ b/ prefixes) replacing the unique occurrence of <old> by <new>."""
import sys, os, difflib
out = sys.argv[1]
args = sys.argv[2:]
repo = os.environ.get('REPO', '/repo')
chunks = []
files = {}
for i in range(0, len(args), 3):
    f, old, new = args[i:i + 3]
    src = files.get(f) or open(os.path.join(repo, f)).read()
    old = old.encode().decode('unicode_escape') if '\\n' in old else old
    new = new.encode().decode('unicode_escape') if '\\n' in new else new
    if src.count(old) != 1:
        sys.exit('%s: %d occurrences of %r' % (f, src.count(old), old))
    files[f] = src.replace(old, new)
for f, new in files.items():
    src = open(os.path.join(repo, f)).read()
    chunks.append(''.join(difflib.unified_diff(src.splitlines(True), new.splitlines(True), 'a/' + f, 'b/' + f)))
open(out, 'w').write(''.join(chunks))
print('wrote', out)
