#!/usr/bin/env python3
"""eval_mutant.py <patch> : run every property's rules on a scratch copy of /repo with the patch applied."""
import sys, os, json
sys.path.insert(0, os.path.dirname(os.path.dirname(os.path.abspath(__file__))))
from rules import selftest
r = selftest.run_patch_all(sys.argv[1], props=sys.argv[2:] or None)
if r['status'] != 'applied':
    print(json.dumps(r, indent=1))
    sys.exit(2)
if not r['violations']:
    print('NOT DETECTED by any property check')
for p, vs in r['violations'].items():
    for k, d in vs:
        print('%s  %s\n      %s' % (p, k[:200], d))
