#!/usr/bin/env python3
"""Writes /verif/MANIFEST.json from the table below; a property is claimed iff rules/<id>.py exists."""
import json, os
HERE = os.path.dirname(os.path.dirname(os.path.abspath(__file__)))

P = {
 'C02': ('partial: announce fan-out (<= 8 over the distance-sorted candidate list), announce content, forwarding of every value of an accepted answer, end-game coverage of unqueried candidates, decided on all paths of the MIR',
         'does NOT decide convergence to the globally closest 8 for every topology/arrival order (ranking argument over run-time data)',
         'MIR rules: CONST + flow/only-from + must-pass-through + who-may-mutate'),
 'C03': ('structural, all paths: transaction gate dominates every stream item / token record / candidate insertion; provenance of stream items, tokens and announce targets; announce only under will_announce; <= 8; finishing routine on an owned search',
         'assumes std HashMap::insert is last-writer-wins and HashMap::remove returns Some only for present keys',
         'MIR rules: edge dominance + who-may-call/construct + local only-from flows'),
 'C04': ('partial (premises): query/timeout pairing, end-game timer always armed, Completed constructed only when not in end-game and nothing outstanding, Completed always leads to removal+finish, cancel never touches the end-game timer, timer key order, constants 1.5 s',
         'does NOT decide the quantitative bounds (3 s, 1.5 s*n+3 s) nor absence of unbounded re-iteration',
         'MIR rules: pairing + must-pass-through + decision table + derive field order'),
 'C05': ('structural, all paths: per query kind exactly one reply on every non-error path, to the source address, echoing the transaction id, own id; field discipline per kind; 203/202 mapping; replies constructed nowhere else; read-only gate by predicate tracking; garbage/error/response paths send nothing',
         'well-formedness of the bytes is C13; std semantics of Vec::new/to_vec assumed',
         'MIR rules: path counting + only-from flows + aggregate tables + predicate tracking'),
 'C06': ('premises + hand lemma: IP (not port) passed to issue and check, storing dominated by a successful check, 20-byte length gate, both secrets checked with the generators checkout uses, rotation decision table over elapsed intervals, 600 s, secrets random and written only by the store, rotation precedes every use',
         'SHA-1 treated as a random oracle; lemma in DESIGN.md section 4/C06',
         'MIR rules: decision table + dominance + who-may-write + sibling agreement'),
 'C07': ('premises + hand lemma: constants 500 / 86400 s, insert decision table, renewal = remove-then-append, queue mutators subset of {push, retain, drain-prefix}, expiry precedes every read/write, contact-address table, family filter table, who-may-write',
         'exactness follows from the lemma in DESIGN.md section 4/C07; Vec/HashMap semantics trusted',
         'MIR rules: decision tables + must-precede + method allow-lists'),
 'C08': ('structural + tables: admission filter dominates placement, capacity by array type, placement/split tables, who-may-mutate, in-place update before replacement, strict < on the status order, victim choice prefers a bad slot',
         'admission under deep recursive splits is argued from the tables, not checked',
         'MIR rules: dominance + type/const facts + decision tables + who-may-store'),
 'C09': ('partial: answer drawn only from live table nodes of the requested family, <= 8 per family, liveness predicate table, family filter agreement, start bucket from the shared-prefix length',
         'does NOT decide exactly-once enumeration, nearest-bucket-first order or "exactly min(8,n)" (iteration algorithm over all table shapes)',
         'MIR rules: only-from flows through iterator adaptors + tables + const'),
 'C10': ('premises + hand lemma: status decision function over its four predicates equals the BEP5 table, 3x3 update table, write-sets of the three event methods, constructors, constants 15 min / 2, who-may-write Node fields, export/filter tables, query arms only mark known nodes',
         'lemma in DESIGN.md section 4/C10 connects the tables to the event-history statement; Instant monotone',
         'MIR path enumeration with forward substitution -> decision tables compared with the prescribed tables'),
 'C11': ('partial (liveness premises): refresh re-arms itself on every path, is started on bootstrap completion and by its own timer, pings questionable not-recently-asked nodes and marks them, refresh answers re-admit the responder as good, cursor reset precedes flip_bit',
         'does NOT decide any timing bound (30 s, 20 min, 5 min)',
         'MIR rules: must-pass-through + tables + dominance'),
 'C12': ('structural, all paths: who-may-admit + guard dominance, query arms never admit, 8-byte transaction-id gate before any table write, hearsay only as questionable, responder only as good, router/own-id filter',
         'bootstrap exchange matching relies on Socket::recv keying by (source address, transaction id) (checked) and HashMap semantics',
         'MIR rules: who-may-call + edge dominance + zero-count + only-from'),
 'C13': ('partial (schema): wire key tables = BEP tables, serializer/deserializer key agreement, untagged-variant order soundness, q/a diagonal, compact lengths 6/18/26/38, endianness pairs, 20-byte ids, implied_port/want tables, no deny_unknown_fields, multiple-of-entry-size rejection',
         'does NOT decide byte-exact canonical bencoding nor round-trip for every value (library semantics)',
         'schema facts from expanded-AST attributes + evaluated serde consts + MIR of the hand-written (de)serializers'),
 'C14': ('structural: reviewed panic-site table over everything reachable from datagram handling, input-sized allocation rule, validator dominates the bencode library call, validator allocation-/recursion-free with length and depth bounds, receive/handler loops swallow errors',
         'behaviour inside dependencies beyond the two reviewed hazards is trusted',
         'MIR rules: call-graph reachability + panic-site descriptors + dominance + SCC'),
 'C15': ('partial: bootstrap task has no exit while the handler lives, shared-id sends iterate a set type, bootstrapped not published before a response was counted, no-contacts path sends nothing, every waiter is drained, back-off constant',
         'does NOT decide the 11-minute bound or behaviour under flapping',
         'MIR rules: return-edge table + iterator-type facts + dominance + path counting'),
 'C16': ('structural: a search command reaches lookup construction only behind the sticky initial-bootstrap-done flag, otherwise it is parked; the parking place is drained into the same start routine by the completion handler; the flag is monotone',
         'does NOT decide equality of results with a post-bootstrap search',
         'MIR rules: dominance + must-pass-through + who-may-write'),
 'C17': ('size algebra: worst-case encoded size of every message construction from type-level/const bounds vs the receive buffer literal',
         'echoed transaction id <= 32 bytes (property quantifier), remote tokens <= 20 bytes (this implementation); the uncapped get_peers values list is the listed known finding',
         'MIR aggregate resolution + cardinality bounds (Vec::new -> 0, take(k) -> k) + wire-schema arithmetic'),
 'C18': ('structural (token conservation): at most one pending refresh timer: single arm site, dominated by cancel of the stored token, result stored, field written nowhere else',
         'inductive argument in DESIGN.md section 4/C18',
         'MIR rules: who-may-construct + dominance + must-store'),
 'C19': ('partial: 8 = 5+3 by type and const, block length divides id space, shift agreement writer/reader, generators not clonable, single action-id source, every query tid only-from its activity generator, shared-id rule',
         'does NOT decide non-repetition inside the 2^24 window (block allocator over long histories)',
         'CONST/TYPE facts + who-may-call + local only-from flows'),
 'C20': ('partial: BEP42 mask tables per family, octet counts, CRC input is the masked prefix mixed with the same random byte that becomes the last id byte, id[0..3] derive from the CRC',
         'does NOT decide bit-exact placement (shifts, endianness) of the 21 CRC bits',
         'MIR constant tables + may-reach flows'),
}

NA = {
 'C01': 'end-to-end reachability over network sizes, latencies, interleavings and virtual time up to >24 h: no sound static argument in reach bounds "B\'s search reaches a node that stored A\'s announce"; every link of the chain is claimed structurally under C02/C03/C05/C06/C07',
}


def main():
    checks = []
    na = [{'property_id': k, 'reason': v} for k, v in NA.items()]
    for pid in sorted(P):
        text, note, tech = P[pid]
        if not os.path.exists(os.path.join(HERE, 'rules', pid.lower() + '.py')):
            na.append({'property_id': pid, 'reason': 'static rules not built yet in this revision of /verif (see DESIGN.md section 4 for the planned rules)'})
            continue
        checks.append({
            'property_id': pid,
            'quick_cmd': './check %s --tier quick' % pid,
            'thorough_cmd': './check %s --tier thorough' % pid,
            'evidence_file': 'evidence/%s.json' % pid,
            'replay_cmd_template': 'cat {path}',
            'engine': 'factgen+rules',
            'level_claimed': {'category': 'other', 'text': 'static analysis of the type-checked program (MIR) of the current tree: ' + text,
                              'design_ref': 'DESIGN.md section 4/' + pid},
            'level_note': note,
            'technique': 'static analysis: ' + tech,
        })
    m = {
        'version': 1,
        'setup_cmd': './setup.sh',
        'hooks': {
            'guard': 'btdht_verif',
            'enable': 'none needed: the checks read rustc\'s own MIR of the unmodified sources (cargo +nightly check with the factgen RUSTC_WORKSPACE_WRAPPER)',
            'baseline_off_cmd': 'cd /repo && cargo test --workspace --no-fail-fast --offline',
            'source_commits': [],
            'add_only': True,
        },
        'engines': [
            {'name': 'factgen', 'path': 'factgen/', 'serves_properties': sorted(P), 'kind_free_text': 'rustc_private driver dumping mir_built, items, evaluated consts, expanded-AST attributes as JSON facts'},
            {'name': 'rules', 'path': 'rules/', 'serves_properties': sorted(P), 'kind_free_text': 'Python rule engine: CFG dominance, call graph, path enumeration with forward substitution (decision tables), flows, who-may-X'},
            {'name': 'selftest', 'path': 'selftest/', 'serves_properties': sorted(P), 'kind_free_text': 'seeded violations and behaviour-preserving edits run through the same rules on scratch copies (thorough tier)'},
        ],
        'checks': checks,
        'not_applicable': na,
        'notes': 'Technique family: static analysis only; nothing in a registered check runs btdht code. Exit 0 = all obligations discharged; 1 = VIOLATION; 2 = infrastructure failure.',
    }
    with open(os.path.join(HERE, 'MANIFEST.json'), 'w') as fh:
        json.dump(m, fh, indent=1)
    print('claimed:', [c['property_id'] for c in checks])


main()
