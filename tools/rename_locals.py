"""rename every let-bound local in a fact file (per function family: a fn and its closures), keeping parameter names of that family"""
import json, sys, re
j = json.load(open(sys.argv[1]))
fam = {}
for b in j['bodies']:
    root = re.sub(r'::\{.*$', '', b['path'])
    fam.setdefault(root, []).append(b)
total = 0
for root, bodies in fam.items():
    params = {d['name'] for b in bodies for d in b.get('debug', []) if d.get('arg')}
    # in a coroutine the parameters re-appear as upvars / rebinding locals of the same name: keep those names
    outer = [b for b in bodies if b['path'] == root]
    names = {d['name'] for b in bodies for d in b.get('debug', []) if not d.get('arg')}
    ren = {n: 'q' + n[::-1] + 'q' for n in names if n not in params and not n.startswith('_') and n != 'self'}
    total += len(ren)
    def fixn(name):
        return '__'.join(ren.get(p, p) for p in name.split('__'))
    def walk(x):
        if isinstance(x, dict):
            if 'n' in x and 'f' in x and isinstance(x.get('bt'), str) and x['bt'].startswith('{') and isinstance(x['n'], str):
                x['n'] = fixn(x['n'])
            for v in x.values():
                walk(v)
        elif isinstance(x, list):
            for v in x:
                walk(v)
    for b in bodies:
        for d in b.get('debug', []):
            if d['name'] in ren:
                d['name'] = ren[d['name']]
        if b.get('upvars'):
            b['upvars'] = [fixn(u) for u in b['upvars']]
        walk(b.get('blocks') or [])
        walk(b.get('debug') or [])
json.dump(j, open(sys.argv[2], 'w'))
print(total, 'local names renamed')
