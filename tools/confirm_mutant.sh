#!/bin/bash
# confirm_mutant.sh <Cxx> [wt]  : independently confirm an agent-made mutant
#   1. mutation.patch applies to /repo HEAD, the 64 tests pass with it
#   2. with demo.patch: the demo fails with the mutation and passes without it
# Uses a scratch worktree /tmp/cf-<Cxx> (removed afterwards) and the agent's target dir for speed.
set -u
P=$1; WT=${2:-/tmp/wt-$P}; CF=/tmp/cf-$P
export CARGO_NET_OFFLINE=true
git -C /repo worktree remove --force $CF 2>/dev/null
git -C /repo worktree add -q --detach $CF HEAD || exit 2
cd $CF
export CARGO_TARGET_DIR=$WT/target
git apply $WT/mutation.patch || { echo "RESULT $P mutation does not apply"; exit 2; }
T=$(cargo test --workspace --no-fail-fast --offline 2>&1 | grep -E "^test result" )
PASSED=$(echo "$T" | awk '{s+=$4} END {print s}'); FAILED=$(echo "$T" | awk '{s+=$6} END {print s}')
echo "suite with mutation: passed=$PASSED failed=$FAILED"
git apply $WT/demo.patch || { echo "RESULT $P demo does not apply on mutated tree"; exit 2; }
D1=$(cargo test --offline --lib demo_$P 2>&1 | grep -E "^test result|panicked at|^test .*(FAILED|ok)$" | head -8)
echo "--- demo with mutation:"; echo "$D1"
git apply -R $WT/mutation.patch || { echo "RESULT $P cannot revert mutation under demo"; exit 2; }
D2=$(cargo test --offline --lib demo_$P 2>&1 | grep -E "^test result|panicked at|^test .*(FAILED|ok)$" | head -8)
echo "--- demo without mutation:"; echo "$D2"
W=$(echo "$D1" | grep -c "FAILED"); O=$(echo "$D2" | grep "^test result" | grep -c "ok\.")
NT=$(echo "$D2" | grep "^test result" | awk '{print $4}')
if [ "$PASSED" = "64" ] && [ "$FAILED" = "0" ] && [ "$W" -ge 1 ] && [ "$O" -ge 1 ] && [ "${NT:-0}" -ge 1 ]; then echo "RESULT $P CONFIRMED"; else echo "RESULT $P NOT-CONFIRMED"; fi
cd /; git -C /repo worktree remove --force $CF
