#!/usr/bin/env python3
"""dev helper: run every property's rules on pre-extracted fact files (/tmp/eqfacts/*.json) - no cargo involved"""
import sys, os, glob, json
HERE = os.path.dirname(os.path.dirname(os.path.abspath(__file__)))
sys.path.insert(0, HERE)
from concurrent.futures import ProcessPoolExecutor
from rules import run as R

def one(fp):
    known = {k['key'] for k in R.load_known().get('open', [])}
    out = []
    notes = None
    props = [p for p in os.environ.get('PROPS', '').split(',') if p] or R.PROPS
    for prop in props:
        try:
            res, facts, n, mod = R.analyse(prop, '/nonexistent', facts_path=fp)
            notes = facts.renames
            for v in res.violations():
                if v['key'] not in known:
                    out.append((prop, v['key'], (v.get('detail') or '')[:200]))
        except Exception as e:
            import traceback
            out.append((prop, 'CRASH %s' % e, traceback.format_exc()[-600:]))
    return fp, out, notes

if __name__ == '__main__':
    files = sorted(sys.argv[1:] or glob.glob('/tmp/eqfacts/*.json'))
    tot = 0
    with ProcessPoolExecutor(max_workers=12) as ex:
        for fp, out, notes in ex.map(one, files):
            name = os.path.basename(fp)[:-5]
            if os.environ.get('NOTES'):
                for n in notes or []:
                    print('   note', name, n)
            for prop, k, d in out:
                print(name, k[:170], '|', d[:160])
            tot += len(out)
            print('==', name, len(out))
    print('total', tot)
