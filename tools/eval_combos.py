#!/usr/bin/env python3
"""refactoring + violation: each sub-agent refactoring is applied first, then every seeded violation / mutant of the same
property that still applies on top of it; the property's check must still report the violation.
(A checker that is silent on refactored code because it no longer understands it would fail here.)"""
import sys, os, glob, json, subprocess, shutil
HERE = os.path.dirname(os.path.dirname(os.path.abspath(__file__)))
sys.path.insert(0, HERE)
from concurrent.futures import ProcessPoolExecutor
from rules import selftest, run as R


def one(args):
    rp, vp, prop = args
    d, dst = selftest.scratch_copy('/repo')
    try:
        for p in (rp, vp):
            r = subprocess.run(['patch', '-p1', '--no-backup-if-mismatch', '-s', '-i', os.path.abspath(p)], cwd=dst, stdout=subprocess.PIPE, stderr=subprocess.STDOUT, text=True)
            if r.returncode != 0:
                return (rp, vp, prop, 'no-apply', [])
        out = os.path.join(d, 'facts.json')
        try:
            R.gen_facts(dst, out=out, quiet=True) if 'quiet' in R.gen_facts.__code__.co_varnames else R.gen_facts(dst, out=out)
        except SystemExit:
            return (rp, vp, prop, 'no-compile', [])
        res, facts, n, mod = R.analyse(prop, dst, facts_path=out)
        known = {k['key'] for k in R.load_known().get('open', [])}
        v = [x['key'] for x in res.violations() if x['key'] not in known]
        return (rp, vp, prop, 'detected' if v else 'MISSED', v[:2])
    finally:
        shutil.rmtree(d, ignore_errors=True)


if __name__ == '__main__':
    refs = sorted(glob.glob(os.path.join(HERE, 'seeded_equivalents', '*', 'patch.diff')))
    jobs = []
    for rp in refs:
        prop = os.path.basename(os.path.dirname(rp)).split('-')[0]
        if len(sys.argv) > 1 and prop not in sys.argv[1:]:
            continue
        vs = sorted(glob.glob(os.path.join(HERE, 'selftest', 'violations', prop + '-*.patch'))) + sorted(glob.glob(os.path.join(HERE, 'seeded', prop + '-*', 'patch.diff')))
        for vp in vs:
            jobs.append((rp, vp, prop))
    stats = {}
    with ProcessPoolExecutor(max_workers=12) as ex:
        for rp, vp, prop, st, keys in ex.map(one, jobs):
            stats[st] = stats.get(st, 0) + 1
            if st in ('MISSED',):
                print(st, os.path.relpath(rp, HERE), '+', os.path.relpath(vp, HERE))
            elif st == 'detected' and os.environ.get('VERBOSE'):
                print(st, os.path.relpath(rp, HERE), '+', os.path.relpath(vp, HERE), keys[:1])
    print(stats)
