#!/bin/bash
# confirm_refactor.sh <Cxx> <wt> : the refactoring applies to /repo HEAD and the 64 tests pass with it
set -u
P=$1; WT=$2; CF=/tmp/cfr-$P
export CARGO_NET_OFFLINE=true
git -C /repo worktree remove --force $CF 2>/dev/null
git -C /repo worktree add -q --detach $CF HEAD || exit 2
cd $CF
export CARGO_TARGET_DIR=$WT/target
git apply $WT/refactor.patch || { echo "RESULT $P refactor does not apply"; cd /; git -C /repo worktree remove --force $CF; exit 2; }
T=$(cargo test --workspace --no-fail-fast --offline 2>&1 | grep -E "^test result" )
PASSED=$(echo "$T" | awk '{s+=$4} END {print s}'); FAILED=$(echo "$T" | awk '{s+=$6} END {print s}')
if [ "$PASSED" = "64" ] && [ "$FAILED" = "0" ]; then echo "RESULT $P CONFIRMED passed=$PASSED"; else echo "RESULT $P NOT-CONFIRMED passed=$PASSED failed=$FAILED"; fi
cd /; git -C /repo worktree remove --force $CF
