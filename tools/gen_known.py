#!/usr/bin/env python3
"""Records the reference for the reviewed tree: rules/known_fns.txt (body paths) and rules/known_shapes.json
(function signatures + MIR fingerprints, field lists).  Run ONLY after the rules have been reviewed against /repo."""
import sys, os, json
HERE = os.path.dirname(os.path.dirname(os.path.abspath(__file__)))
sys.path.insert(0, HERE)
from rules import run, canon
out = os.path.join(HERE, 'build', 'facts.json')
run.gen_facts('/repo', out=out)
j = json.load(open(out))
ref = canon.reference(j)
json.dump(ref, open(os.path.join(HERE, 'rules', 'known_shapes.json'), 'w'), indent=0, sort_keys=True)
paths = sorted({b['path'] for b in j['bodies']})
open(os.path.join(HERE, 'rules', 'known_fns.txt'), 'w').write('\n'.join(paths) + '\n')
print(len(ref['fns']), 'functions,', len(ref['adts']), 'types,', len(paths), 'bodies')
