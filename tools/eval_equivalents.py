#!/usr/bin/env python3
"""Runs EVERY property's rules on each behaviour-preserving edit; any alarm anywhere is a false alarm."""
import sys, os, glob, json
HERE = os.path.dirname(os.path.dirname(os.path.abspath(__file__)))
sys.path.insert(0, HERE)
from concurrent.futures import ThreadPoolExecutor
from rules import selftest
pats = sorted(sys.argv[1:] or glob.glob(os.path.join(HERE, 'selftest', 'equivalents', '*.patch')) + glob.glob(os.path.join(HERE, 'seeded_equivalents', '*', 'patch.diff')))
bad = 0
try:
    EXP = json.load(open(os.path.join(HERE, 'selftest', 'equivalents', 'EXPECTED_ELSEWHERE.json')))
except OSError:
    EXP = {}
def one(p):
    return p, selftest.run_patch_all(p)
with ThreadPoolExecutor(max_workers=6) as ex:
    for p, r in ex.map(one, pats):
        name = os.path.relpath(p, HERE)
        if r['status'] != 'applied':
            print('SKIP', name, r.get('why'))
            continue
        for prop in EXP.get(os.path.basename(p), []):
            if prop in r['violations']:
                print('expected', name, prop, '(correct alarm of another property)')
                del r['violations'][prop]
        if r['violations']:
            bad += 1
            for prop, vs in r['violations'].items():
                for k, d in vs:
                    print('FALSE-ALARM', name, k[:160], '|', d[:120])
        else:
            print('silent', name)
print('false alarms in %d of %d edits' % (bad, len(pats)))
